------------------------------ MODULE TraceMap ------------------------------
(***************************************************************************)
(* Trace validator for source-map observations of the real rewriter:       *)
(* C09 (MapCheck), C10 (SourceMapChain composition + SourceMapReader       *)
(* trailer / comment rules + "no other text altered" via Erase/Match),     *)
(* and the reader-fault half of C13.                                       *)
(***************************************************************************)
EXTENDS MapCheck, SourceMapReader, Json, IOUtils

Recs == ndJsonDeserialize(IOEnv.TRACE)
VARIABLE l

Verdict(rid, prop, v, detail) == PrintT("VERDICT|" \o rid \o "|" \o prop \o "|" \o v \o "|" \o ToString(detail))

SameTokens(a, b) == a = b

JudgeMap(r) ==
  \E rin \in {TreeOf(r.in)} : \E rout \in {TreeOf(r.out)} :
  \E inj \in {Injected(rout, rin)} :
  \E ci \in {Er(rin, EmptyEnv({}))} : \E e \in {Er(rout, EmptyEnv(inj))} :
  \E m \in {Match(e, ci)} :
  LET \* odd file names ("", "/", "a/"): which directory a relative reference is resolved in is not
      \* part of the model; both readings are accepted
      use == IF r.odd_name THEN "either" ELSE Usable(r.kindref, r.parent)
      mustChain == r.chain /\ use = "yes"
      mustNotChain == ~r.chain \/ use = "no"
      exact == ExactComposition(r.ctoks, r.rtoks, r.otoks)
      plain == SameTokens(r.ctoks, r.rtoks)
  IN
  \* ---- C09 (judged on the un-chained rewrite map of the same call)
  /\ IF ~m.ok THEN Verdict(r.rid, "C09", "na", "erasure failed, see C02/C10")
     ELSE \E why \in {C09Why(r, rin, rout, e, ci, inj)} :
          IF why # "" THEN Verdict(r.rid, "C09", "reject", why)
          ELSE Verdict(r.rid, "C09", "ok", C09Count(e, ci))
  \* ---- C10
  /\ IF r.n_trailers # 1 \/ ~r.trailer_last \/ ~r.trailer_decodes
     THEN Verdict(r.rid, "C10", "reject", <<"trailer", r.n_trailers, r.trailer_last, r.trailer_decodes>>)
     ELSE IF ~m.ok THEN Verdict(r.rid, "C10", "reject", <<"program text altered", m.why>>)
     ELSE IF ~r.body_same_as_unchained THEN Verdict(r.rid, "C10", "reject", "chaining changed the program text")
     ELSE IF r.n_url_comments > MaxUrlComments(r.kindref, r.keep_comments) \/ r.n_url_comments = 0
          THEN Verdict(r.rid, "C10", "reject", <<"sourceMappingURL comments in the output", r.n_url_comments>>)
     ELSE IF mustChain /\ ~exact
          THEN Verdict(r.rid, "C10", "reject",
                       <<"chained map is not the composition at rewrite token", FirstInexact(r.ctoks, r.rtoks, r.otoks),
                         r.rtoks[FirstInexact(r.ctoks, r.rtoks, r.otoks)]>>)
     ELSE IF mustNotChain /\ ~plain
          THEN Verdict(r.rid, "C10", "reject", "no usable original map / chaining off, but the trailer is not the plain rewrite map")
     ELSE IF ~(plain \/ exact) THEN Verdict(r.rid, "C10", "reject", "trailer is neither the composition nor the plain rewrite map")
     ELSE Verdict(r.rid, "C10", IF r.chain /\ use = "yes" /\ Len(r.otoks) > 0 THEN "ok" ELSE "ok0", <<r.kindref, use, Len(r.rtoks)>>)

JudgeTotal(r) ==
  IF r.outcome \in {"ok", "noparse", "ok_total"} THEN Verdict(r.rid, "C13", "ok", "result")
  ELSE IF r.outcome = "err" THEN
         IF r.error # "" THEN Verdict(r.rid, "C13", "ok", "error value")
         ELSE Verdict(r.rid, "C13", "reject", "error without diagnostic")
  ELSE Verdict(r.rid, "C13", "reject", <<r.outcome, r.error>>)

Judge(r) == JudgeTotal(r) /\ (IF r.outcome = "ok" /\ r.mapcase THEN JudgeMap(r) ELSE TRUE)

Init == l = 1
Next == l <= Len(Recs) /\ Judge(Recs[l]) /\ l' = l + 1
Spec == Init /\ [][Next]_l
AllConsumed == TLCGet("stats").diameter - 1 = Len(Recs)
=============================================================================
