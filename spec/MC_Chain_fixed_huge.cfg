SPECIFICATION Spec
CONSTANTS G = 5 P = 5 MaxR = 4 MaxO = 3 KeepUnmapped = TRUE Ranges = {FALSE}
INVARIANT ChainIsExact
CHECK_DEADLOCK FALSE
