SPECIFICATION Spec
CONSTANTS CfgName = "methods" Depth = 2
INVARIANT Inv
CHECK_DEADLOCK FALSE
