------------------------------- MODULE Sites -------------------------------
(***************************************************************************)
(* Which nodes of an INPUT program are instrumentable operations, which of *)
(* them MUST be hooked under a configuration (property C04, with every     *)
(* documented exclusion) and which MAY be hooked (property C05).           *)
(*                                                                         *)
(* A site is  [k: kind, tag: telemetry tag, id: input node, en: enabled    *)
(* by the configuration, req: must be hooked, dst: hook name expected].    *)
(* Placements the property text leaves open are enabled but not required   *)
(* (neither hooking them nor leaving them alone is a violation).           *)
(***************************************************************************)
EXTENDS Erase

Six == {"concat", "replace", "replaceAll", "padEnd", "padStart", "repeat"}

(* cfg = [plus: dst | "", tpl: dst | "", methods: <<[src, dst, bare]>>]  (operators excluded) *)
RECURSIVE FindMethod(_, _)
FindMethod(ms, name) ==
  IF ms = <<>> THEN [src |-> "", dst |-> "", bare |-> FALSE]
  ELSE IF Head(ms).src = name THEN Head(ms) ELSE FindMethod(Tail(ms), name)
HasMethod(cfg, name) == FindMethod(cfg.methods, name).src = name
MethodDst(cfg, name) == FindMethod(cfg.methods, name).dst
MethodBare(cfg, name) == FindMethod(cfg.methods, name).bare

HookNamesOf(cfg) == {cfg.methods[i].dst : i \in 1..Len(cfg.methods)}
                      \cup cfg.opdsts

Ctx0 == [blk |-> FALSE, ex |-> FALSE, tagged |-> FALSE, inchain |-> FALSE]

(* ns: a  <path>.m.call|apply(..)  site whose callee path is not a static X.y.z path *)
Site(k, tag, n, en, req, dst) == [k |-> k, tag |-> tag, id |-> n.id, en |-> en, req |-> en /\ req, dst |-> dst, ns |-> FALSE]

RECURSIVE IsStaticPathS(_)
IsStaticPathS(m) == m.t = "MemberExpression" /\ m.c[2].t = "Identifier" /\
                    (m.c[1].t = "Identifier" \/ (m.c[1].t = "MemberExpression" /\ IsStaticPathS(m.c[1])))

(* receiver kinds the property lists (raw node, parentheses not stripped) *)
RecvListed(o) ==
  \/ o.t \in {"Identifier", "CallExpression", "ParenthesisExpression", "ArrayExpression"}
  \/ o.t = "MemberExpression" /\ ~(o.c[2].t = "Identifier" /\ o.c[2].v = "prototype")

(* X.prototype / X?.prototype as the receiver of an optional method call *)
IsProtoMember(o) == o.t = "MemberExpression" /\ o.c[2].t = "Identifier" /\ o.c[2].v = "prototype"
RecvIsProto(o) == IsProtoMember(o) \/ (o.t = "OptionalChainingExpression" /\ IsProtoMember(o.c[1]))

IsUndefOrNull(e) == IsIdentNamed(e, "undefined") \/ IsIdentNamed(e, "null")
AllArgsLiteral(args) == \A i \in 1..Len(args) : IsLit(args[i].c[1]) \/ IsUndefOrNull(args[i].c[1])

(* X.prototype.m  with X an identifier *)
IsProtoPath(o) ==
  /\ o.t = "MemberExpression" /\ o.c[2].t = "Identifier"
  /\ o.c[1].t = "MemberExpression" /\ o.c[1].c[2].t = "Identifier" /\ o.c[1].c[2].v = "prototype"
  /\ o.c[1].c[1].t = "Identifier"

TplNonLiteral(n) == Len(n.c[1].c) >= 1 /\ \A i \in 1..Len(n.c[1].c) : ~IsLit(n.c[1].c[i])
TplHasLiteral(n) == \E i \in 1..Len(n.c[1].c) : IsLit(n.c[1].c[i])

Own(n, ctx, cfg) ==
  LET live == ctx.blk /\ ~ctx.ex IN
  CASE n.t = "BinaryExpression" /\ n.v = "+" ->
         << Site("plus", "+", n, cfg.plus # "", live /\ ~LitOnly(n), cfg.plus) >>
    [] n.t = "AssignmentExpression" /\ n.v = "+=" ->
         << Site("pluseq", "+=", n, cfg.plus # "", live, cfg.plus) >>
    [] n.t = "TemplateLiteral" /\ ~ctx.tagged ->
         << Site("tpl", "Tpl", n, cfg.tpl # "", live /\ TplNonLiteral(n), cfg.tpl) >>
    [] n.t = "CallExpression" /\ ~ctx.inchain /\ n.c[1].t = "MemberExpression" /\ n.c[1].c[2].t = "Identifier" ->
         LET m == n.c[1].c[2].v
             o == n.c[1].c[1]
             args == n.c[2].c
         IN IF m \in {"call", "apply"} /\ o.t = "MemberExpression" /\ o.c[2].t = "Identifier"
            THEN \* <path>.mm.call|apply(this, ...)
                 LET mm == o.c[2].v IN
                 << [Site("protocall", mm, n, HasMethod(cfg, mm),
                         /\ live /\ IsProtoPath(o)
                         /\ Len(args) >= 1 /\ ~IsSpreadArg(args[1]) /\ RecvListed(args[1].c[1])
                         /\ \/ m = "call"
                            \/ Len(args) >= 2 /\ ~IsSpreadArg(args[2]) /\ args[2].c[1].t = "ArrayExpression",
                         MethodDst(cfg, mm)) EXCEPT !.ns = ~IsStaticPathS(o)] >>
            ELSE << Site("call", m, n, HasMethod(cfg, m),
                         /\ live
                         /\ \/ RecvListed(o)
                            \/ o.t = "StringLiteral" /\ m \in Six /\ ~AllArgsLiteral(args),
                         MethodDst(cfg, m)) >>
    [] n.t = "CallExpression" /\ ~ctx.inchain /\ n.c[1].t = "Identifier" ->
         << Site("bare", n.c[1].v, n, HasMethod(cfg, n.c[1].v) /\ MethodBare(cfg, n.c[1].v),
                 FALSE, MethodDst(cfg, n.c[1].v)) >>
    [] /\ n.t = "OptionalChainingExpression" /\ ~OptFlag(n)
       /\ n.c[1].t = "CallExpression"
       /\ n.c[1].c[1].t = "OptionalChainingExpression"
       /\ n.c[1].c[1].c[1].t = "MemberExpression"
       /\ n.c[1].c[1].c[1].c[2].t = "Identifier" ->
         LET m == n.c[1].c[1].c[1].c[2].v
             o == n.c[1].c[1].c[1].c[1]
         IN << Site("optcall", m, n, HasMethod(cfg, m), live /\ ~RecvIsProto(o), MethodDst(cfg, m)) >>
    [] OTHER -> <<>>

(* context of child number k of node n *)
KidCtx(n, k, ctx, cfg) ==
  CASE n.t = "BlockStatement" -> [blk |-> TRUE, ex |-> FALSE, tagged |-> FALSE, inchain |-> FALSE]
    [] n.t = "UnaryExpression" /\ n.v = "delete" -> [ctx EXCEPT !.ex = TRUE, !.tagged = FALSE, !.inchain = FALSE]
    [] n.t = "ArrowFunctionExpression" ->
         IF k = 1 THEN [ctx EXCEPT !.ex = TRUE, !.tagged = FALSE, !.inchain = FALSE]
         ELSE IF n.c[2].t = "BlockStatement" THEN [ctx EXCEPT !.tagged = FALSE, !.inchain = FALSE]
         \* expression body: a function body iff the arrow itself is reached inside a block
         ELSE [ctx EXCEPT !.ex = ctx.ex \/ ~ctx.blk, !.tagged = FALSE, !.inchain = FALSE]
    [] n.t = "TemplateLiteral" /\ ~ctx.tagged /\ cfg.tpl # "" /\ TplHasLiteral(n) ->
         [ctx EXCEPT !.ex = TRUE, !.tagged = FALSE, !.inchain = FALSE]
    [] n.t = "TaggedTemplateExpression" /\ n.c[k].t = "TemplateLiteral" ->
         [ctx EXCEPT !.tagged = TRUE, !.inchain = FALSE]
    [] n.t = "OptionalChainingExpression" -> [ctx EXCEPT !.tagged = FALSE, !.inchain = TRUE]
    [] OTHER -> [ctx EXCEPT !.tagged = FALSE, !.inchain = FALSE]

RECURSIVE SitesOf(_, _, _)
SitesOf(n, ctx, cfg) ==
  Own(n, ctx, cfg) \o FlatSeq([k \in 1..Len(n.c) |-> SitesOf(n.c[k], KidCtx(n, k, ctx, cfg), cfg)])

(* hook marks of the erased output attributed to input nodes (only meaningful when Match is ok) *)
RECURSIVE HookPairs(_, _)
HookPairs(e, i) ==
  IF /\ i.t = "AssignmentExpression" /\ i.v = "+="
     /\ e.t = "AssignmentExpression" /\ e.v = "="
     /\ e.c[2].t = "BinaryExpression" /\ e.c[2].h # ""
  THEN {<<i.id, e.c[2].h, e.c[2].hw>>} \cup HookPairs(e.c[1], i.c[1]) \cup HookPairs(e.c[2].c[2], i.c[2])
  ELSE (IF e.h # "" THEN {<<i.id, e.h, e.hw>>} ELSE {})
       \cup UNION {HookPairs(e.c[k], i.c[k]) : k \in 1..Len(e.c)}

(* member names dereferenced on the hook namespace anywhere in a raw tree *)
RECURSIVE NamespaceRefs(_)
NamespaceRefs(n) ==
  (IF n.t = "MemberExpression" /\ IsIdentNamed(n.c[1], "_ddiast")
   THEN {IF n.c[2].t = "Identifier" THEN n.c[2].v ELSE "<computed>"} ELSE {})
  \cup UNION {NamespaceRefs(n.c[k]) : k \in 1..Len(n.c)}

=============================================================================
