------------------------------- MODULE Erase -------------------------------
(***************************************************************************)
(* The erasure of instrumentation (property C02), written as a function on *)
(* the OUTPUT tree, plus the matching relation against the INPUT tree.     *)
(*                                                                         *)
(*   Er(out, env)  replaces each hook call by its first argument (leaving  *)
(*   a mark h on it), each injected temporary by the expression assigned   *)
(*   to it (leaving an origin mark o), drops injected declarations, and    *)
(*   undoes method re-dispatch (tM.call(tR, ..) with tM = tR.m), spread    *)
(*   materialisation ([...x] used as ...t), optional-chain guards          *)
(*   ((t = B, t == null ? undefined : REST)) and arrow-body blocks.        *)
(*   The same function applied to the input (no injected names) only       *)
(*   removes parentheses, empty statements and literal spelling, so        *)
(*   Match(Er(out), Er(in)) is "the same syntax tree up to parentheses     *)
(*   and literal spelling".                                                *)
(*                                                                         *)
(* Injected names are recognised structurally (declared by an              *)
(* initialiser-less `let` of the output and not occurring in the input),   *)
(* never by spelling.                                                      *)
(*                                                                         *)
(* The static half of C03 (hook argument lists) is decided at each hook    *)
(* call on the raw output (HookWhy) and left as a mark hw.                 *)
(***************************************************************************)
EXTENDS JsAst

(* canonical node: raw fields + marks *)
CN(t, v, a, c, id) ==
  [t |-> t, v |-> v, a |-> a, c |-> c, id |-> id, h |-> "", hw |-> "", o |-> <<>>, bad |-> "",
   l |-> 0, k |-> 0, el |-> 0, mf |-> FALSE, mx |-> FALSE, mm |-> FALSE, ml |-> 0, mk |-> 0]

(* canonical node that stands for the raw node n: keeps its position and its source-map lookup *)
CNof(n, c) ==
  [t |-> n.t, v |-> n.v, a |-> n.a, c |-> c, id |-> n.id, h |-> "", hw |-> "", o |-> <<>>, bad |-> "",
   l |-> IF "l" \in DOMAIN n THEN n.l ELSE 0, k |-> IF "k" \in DOMAIN n THEN n.k ELSE 0,
   el |-> IF "el" \in DOMAIN n THEN n.el ELSE 0,
   mf |-> IF "mf" \in DOMAIN n THEN n.mf ELSE FALSE, mx |-> IF "mx" \in DOMAIN n THEN n.mx ELSE FALSE,
   mm |-> IF "mm" \in DOMAIN n THEN n.mm ELSE FALSE,
   ml |-> IF "ml" \in DOMAIN n THEN n.ml ELSE 0, mk |-> IF "mk" \in DOMAIN n THEN n.mk ELSE 0]

NullCN == CN("Null", "", "", <<>>, 0)
Bad(why) == [CN("_Bad", why, "", <<>>, 0) EXCEPT !.bad = why]

AddOrigin(n, name) == [n EXCEPT !.o = Append(@, name)]
MarkHook(n, name, why) ==
  IF n.h = "" THEN [n EXCEPT !.h = name, !.hw = why]
  ELSE [n EXCEPT !.bad = "hook wraps a hook call directly"]

(* environment: inj = set of injected names, b = bindings name -> [raw, er] *)
EmptyEnv(inj) == [inj |-> inj, b |-> <<>>]
Bound(env, name) == name \in DOMAIN env.b
Bind(env, name, raw, er) == [env EXCEPT !.b = (name :> [raw |-> raw, er |-> er]) @@ @]

IsInjIdent(n, env) == n.t = "Identifier" /\ n.v \in env.inj

(* t = E with t an injected name *)
IsTempAssign(n, env) ==
  /\ n.t = "AssignmentExpression" /\ n.v = "="
  /\ IsInjIdent(n.c[1], env)

(* g == null ? undefined : REST  with g a bound injected name *)
IsGuard(n, env) ==
  /\ n.t = "ConditionalExpression"
  /\ LET tst == StripParen(n.c[1]) IN
       /\ tst.t = "BinaryExpression" /\ tst.v = "=="
       /\ IsInjIdent(tst.c[1], env) /\ Bound(env, tst.c[1].v)
       /\ tst.c[2].t = "NullLiteral"
  /\ IsIdentNamed(StripParen(n.c[2]), "undefined")
GuardName(n) == StripParen(n.c[1]).c[1].v

(* M.call(R, ...) / M.apply(R, ...) where M is an injected name bound to  R.m  with the    *)
(* same R (same injected identifier, or the same literal): the rewriter's re-dispatch      *)
SameReceiver(x, y) ==
  \/ x.t = "Identifier" /\ y.t = "Identifier" /\ x.v = y.v
  \/ IsLit(x) /\ IsLit(y) /\ x.t = y.t /\ x.v = y.v

IsRedispatch(n, env) ==
  /\ n.t = "CallExpression"
  /\ n.c[1].t = "MemberExpression"
  /\ IsInjIdent(n.c[1].c[1], env) /\ Bound(env, n.c[1].c[1].v)
  /\ n.c[1].c[2].t = "Identifier" /\ n.c[1].c[2].v = "call"
  /\ Len(n.c[2].c) >= 1 /\ ~IsSpreadArg(n.c[2].c[1])
  /\ LET m == StripParen(env.b[n.c[1].c[1].v].raw)
         r == StripParen(n.c[2].c[1].c[1])
     IN /\ m.t = "MemberExpression"       \* R.m, R[k] or R.#p: an optional call o[k]?.(..) is re-dispatched the same way
        /\ SameReceiver(StripParen(m.c[1]), r)
        /\ (r.t = "Identifier" => IsInjIdent(r, env))
RedispName(n) == n.c[1].c[1].v                         \* M
RedispMember(n, env) == StripParen(env.b[n.c[1].c[1].v].raw)   \* R.m  (raw)
RedispRecv(n) == StripParen(n.c[2].c[1].c[1])          \* R    (raw)
RedispArgs(n) == Tail(n.c[2].c)                        \* remaining _arg nodes

(* ...t  with  t  bound to  [...E] *)
IsSpreadTemp(a, env) ==
  /\ a.t = "_arg" /\ IsSpreadArg(a)
  /\ IsInjIdent(a.c[1], env) /\ Bound(env, a.c[1].v)
  /\ LET r == StripParen(env.b[a.c[1].v].raw) IN
       /\ r.t = "ArrayExpression"
       /\ Len(r.c[1].c) = 1
       /\ r.c[1].c[1].t = "_arg" /\ IsSpreadArg(r.c[1].c[1])

(* let t0, t1, ... ;   all names injected, no initialisers *)
IsInjDecl(s, env) ==
  /\ s.t = "VariableDeclaration" /\ s.v = "let"
  /\ Len(s.c[1].c) >= 1
  /\ \A i \in 1..Len(s.c[1].c) :
       /\ s.c[1].c[i].t = "VariableDeclarator"
       /\ IsInjIdent(s.c[1].c[i].c[1], env)
       /\ s.c[1].c[i].c[2].t = "Null"

(* the file prologue: if (typeof _ddiast === 'undefined') (function(globals){...}(...)) *)
IsPrologueIf(s) ==
  /\ s.t = "IfStatement"
  /\ LET tst == StripParen(s.c[1]) IN
       /\ tst.t = "BinaryExpression" /\ tst.v = "==="
       /\ StripParen(tst.c[1]).t = "UnaryExpression" /\ StripParen(tst.c[1]).v = "typeof"
       /\ IsIdentNamed(StripParen(StripParen(tst.c[1]).c[1]), "_ddiast")
       /\ StripParen(tst.c[2]).t = "StringLiteral" /\ StripParen(tst.c[2]).v = "undefined"

CountOrigin(n, name) ==
  LET RECURSIVE Cnt(_)
      Cnt(x) == (IF \E i \in 1..Len(x.o) : x.o[i] = name THEN 1 ELSE 0)
                + SumSeq([i \in 1..Len(x.c) |-> Cnt(x.c[i])])
  IN Cnt(n)

(* origin marks of the names a sequence binds are checked at that sequence and then dropped:  *)
(* an inner function may legitimately reuse the same names in its own scope                   *)
RECURSIVE ClearNames(_, _)
ClearNames(n, names) ==
  [n EXCEPT !.o = SelectSeq(@, LAMBDA x : x \notin names),
            !.c = [i \in 1..Len(n.c) |-> ClearNames(n.c[i], names)]]

CheckConsumed(r, names) ==
  LET ns == {names[i] : i \in 1..Len(names)} IN
  IF ns = {} THEN r
  ELSE IF \E nm \in ns : CountOrigin(r, nm) # 1
       THEN [ClearNames(r, ns) EXCEPT !.bad = "an injected temporary is not consumed exactly once"]
       ELSE ClearNames(r, ns)

-----------------------------------------------------------------------------
(* C03, static half: the argument list of a hook call against the operands of the         *)
(* expression it wraps.  Result "" = faithful; "dev:<tag>" = a named deviation;            *)
(* anything else = why it is not.                                                          *)

(* an operand that can be handed over without evaluating anything again *)
IsAtom(e) == e.t = "Identifier" \/ IsLit(e) \/ LitOnly(e)

RECURSIVE SameRaw(_, _)
SameRaw(x, y) ==
  LET sx == StripParen(x) sy == StripParen(y) IN
  /\ sx.t = sy.t /\ sx.v = sy.v /\ Len(sx.c) = Len(sy.c)
  /\ (sx.t = "_arg" => sx.a = sy.a)
  /\ \A i \in 1..Len(sx.c) : SameRaw(sx.c[i], sy.c[i])

(* operand e (an expression) against hook argument a (an _arg node) *)
ArgIs(a, e, spread) ==
  /\ IsSpreadArg(a) = spread
  /\ IsAtom(StripParen(e))
  /\ SameRaw(a.c[1], e)

RECURSIVE ArgsAre(_, _)
(* as: hook arguments (_arg nodes);  es: expected, as sequence of <<expr, spreadFlag>> *)
ArgsAre(as, es) ==
  IF as = <<>> \/ es = <<>> THEN as = <<>> /\ es = <<>>
  ELSE ArgIs(Head(as), Head(es)[1], Head(es)[2]) /\ ArgsAre(Tail(as), Tail(es))

ExpectedOfArgs(args) == [i \in 1..Len(args) |-> <<args[i].c[1], IsSpreadArg(args[i])>>]

(* array elements of  .apply(this, [e1, ..])  ; holes make the list unusable *)
UndefinedIdent == [t |-> "Identifier", v |-> "undefined", a |-> "", c |-> <<>>, id |-> 0]
ApplyElems(arr) == [i \in 1..Len(arr.c[1].c) |->
                      IF arr.c[1].c[i].t = "_arg"
                      THEN <<arr.c[1].c[i].c[1], IsSpreadArg(arr.c[1].c[i])>>
                      ELSE <<UndefinedIdent, FALSE>>]      \* a hole is passed as undefined

DevWhys == {"dev:D7b-nonconstant-sum-operand-omitted", "dev:D18-regexp-literal-operand-evaluated-twice",
            "dev:D20-apply-extra-arguments-handed-to-hook"}

\* a regular-expression literal creates a new object each time it is evaluated
HasRegExp(es) == \E i \in 1..Len(es) : StripParen(es[i][1]).t = "RegExpLiteral"

\* is some expected operand a non-constant '+' left in place (plus operator disabled)?
HasRawSum(es) == \E i \in 1..Len(es) :
                   LET e == StripParen(es[i][1]) IN
                     e.t = "BinaryExpression" /\ e.v = "+" /\ ~LitOnly(e)

HookWhy(n, env) ==
  LET x == StripParen(HookWrapped(n))
      as == HookArgs(n)
      \* a spread operand reaches the call and the hook from ONE expansion: it must be a temporary
      \* holding an array ([...E] or an array literal) or a literal
      SpreadOnce(es) == \A i \in 1..Len(es) :
                          es[i][2] =>
                            LET e == StripParen(es[i][1]) IN
                            \/ IsLit(e)
                            \/ /\ IsInjIdent(e, env) /\ Bound(env, e.v)
                               /\ StripParen(env.b[e.v].raw).t = "ArrayExpression"
      Judge(es) == IF ~SpreadOnce(es) THEN "a spread operand is expanded more than once (not materialised as an array)"
                   ELSE IF ArgsAre(as, es)
                   THEN IF HasRegExp(es) THEN "dev:D18-regexp-literal-operand-evaluated-twice" ELSE ""
                   ELSE IF HasRawSum(es) /\ Len(as) < Len(es) THEN "dev:D7b-nonconstant-sum-operand-omitted"
                   ELSE "hook arguments differ from the operands of the wrapped operation"
      Either(w1, w2) == IF w1 = "" \/ w2 = "" THEN ""
                        ELSE IF w1 \in DevWhys THEN w1 ELSE IF w2 \in DevWhys THEN w2 ELSE w1
  IN
  CASE x.t = "BinaryExpression" /\ x.v = "+" ->
         Judge(<< <<x.c[1], FALSE>>, <<x.c[2], FALSE>> >>)
    [] x.t = "TemplateLiteral" ->
         Judge([i \in 1..Len(x.c[1].c) |-> <<x.c[1].c[i], FALSE>>])
    [] x.t = "CallExpression" /\ x.c[1].t = "MemberExpression"
         /\ x.c[1].c[1].t = "Identifier" /\ x.c[1].c[2].t = "Identifier"
         /\ x.c[1].c[2].v = "call" ->
         \* M.call(R, a...)  ->  (M, R, a...)
         Judge(<< <<x.c[1].c[1], FALSE>> >> \o ExpectedOfArgs(Args(x)))
    [] x.t = "CallExpression" /\ x.c[1].t = "MemberExpression"
         /\ x.c[1].c[1].t = "Identifier" /\ x.c[1].c[2].t = "Identifier"
         /\ x.c[1].c[2].v = "apply" ->
         \* M.apply(R, [e...])  ->  (M, R, e...)   ;  M.apply(...s) -> (M, ...s)
         IF Len(Args(x)) >= 2 /\ ~IsSpreadArg(Args(x)[1]) /\ ~IsSpreadArg(Args(x)[2])
            /\ StripParen(Args(x)[2].c[1]).t = "ArrayExpression"
         THEN \* arguments after the array are evaluated but ignored by apply: handing them to the
              \* hook misreports the call (named deviation D20)
              LET strict == Judge(<< <<x.c[1].c[1], FALSE>>, <<Args(x)[1].c[1], FALSE>> >>
                                  \o ApplyElems(StripParen(Args(x)[2].c[1])))
                  withExtra == Judge(<< <<x.c[1].c[1], FALSE>>, <<Args(x)[1].c[1], FALSE>> >>
                                     \o ApplyElems(StripParen(Args(x)[2].c[1]))
                                     \o ExpectedOfArgs(SubSeq(Args(x), 3, Len(Args(x)))))
              IN IF strict = "" \/ Len(Args(x)) = 2 THEN strict
                 ELSE IF withExtra = "" THEN "dev:D20-apply-extra-arguments-handed-to-hook"
                 ELSE strict
         ELSE IF Len(Args(x)) = 2 /\ IsSpreadArg(Args(x)[1]) /\ ~IsSpreadArg(Args(x)[2])
                 /\ StripParen(Args(x)[2].c[1]).t = "ArrayExpression"
         THEN \* M.apply(...s, [e...]): which value is the receiver and which the argument list is
              \* unknowable statically; both readings of the array are accepted
              Either(Judge(<< <<x.c[1].c[1], FALSE>> >> \o ExpectedOfArgs(Args(x))),
                     Judge(<< <<x.c[1].c[1], FALSE>>, <<Args(x)[1].c[1], TRUE>> >>
                           \o ApplyElems(StripParen(Args(x)[2].c[1]))))
         ELSE Judge(<< <<x.c[1].c[1], FALSE>> >> \o ExpectedOfArgs(Args(x)))
    [] x.t = "CallExpression" /\ x.c[1].t = "Identifier" ->
         \* m(a...)  ->  (m, undefined, a...)
         IF Len(as) >= 2 /\ IsIdentNamed(StripParen(as[2].c[1]), "undefined") /\ ~IsSpreadArg(as[2])
         THEN LET es == << <<x.c[1], FALSE>> >> \o ExpectedOfArgs(Args(x))
                  as2 == <<as[1]>> \o SubSeq(as, 3, Len(as))
              IN IF ~SpreadOnce(es) THEN "a spread operand is expanded more than once (not materialised as an array)"
                 ELSE IF ArgsAre(as2, es)
                 THEN IF HasRegExp(es) THEN "dev:D18-regexp-literal-operand-evaluated-twice" ELSE ""
                 ELSE IF HasRawSum(es) /\ Len(as2) < Len(es) THEN "dev:D7b-nonconstant-sum-operand-omitted"
                 ELSE "hook arguments differ from the operands of the wrapped operation"
         ELSE "bare-call hook lacks the (function, undefined) operands"
    [] OTHER -> "hook wraps an expression that is not an instrumentable operation"

-----------------------------------------------------------------------------
RECURSIVE Er(_, _), ErKids(_, _), ErSeq(_, _, _, _), ErStmts(_, _, _), ErSpine(_, _, _), IsHeadAlias(_, _, _)

ErKids(n, env) == [i \in 1..Len(n.c) |-> Er(n.c[i], env)]

(* a sequence expression: bindings are absorbed into the environment, the rest is kept.    *)
(* names = injected names bound by this very sequence (each must be consumed exactly once) *)
ErSeq(elems, env, kept, names) ==
  IF elems = <<>> THEN
    CheckConsumed(CASE Len(kept) = 1 -> kept[1]
                    [] Len(kept) = 0 -> Bad("sequence of temporaries without a value")
                    [] OTHER -> CN("SequenceExpression", "", "", <<CN("_L", "", "", kept, 0)>>, 0),
                  names)
  ELSE
    LET e == StripParen(Head(elems)) IN
    IF IsTempAssign(e, env)
    THEN ErSeq(Tail(elems), Bind(env, e.c[1].v, e.c[2], Er(e.c[2], env)), kept, Append(names, e.c[1].v))
    ELSE IF IsGuard(e, env)
    THEN ErSeq(Tail(elems), env, Append(kept, ErSpine(e.c[3], env, GuardName(e))), names)
    ELSE ErSeq(Tail(elems), env, Append(kept, Er(e, env)), names)

(* statement lists: injected declarations, the prologue and empty statements disappear *)
ErStmts(stmts, env, acc) ==
  IF stmts = <<>> THEN acc
  ELSE LET s == Head(stmts) IN
       IF s.t = "EmptyStatement" \/ s.t = "_Prologue" \/ IsInjDecl(s, env) \/ IsPrologueIf(s)
       THEN ErStmts(Tail(stmts), env, acc)
       ELSE ErStmts(Tail(stmts), env, Append(acc, Er(s, env)))

IsStmtList(n) == n.t = "_L" /\ \E i \in 1..Len(n.c) :
                    n.c[i].t \in {"EmptyStatement", "VariableDeclaration", "IfStatement", "_Prologue"}

Er(n, env) ==
  CASE n.t = "ParenthesisExpression" -> Er(n.c[1], env)
    [] n.t = "Identifier" /\ Bound(env, n.v) -> AddOrigin(env.b[n.v].er, n.v)
    [] IsHookCall(n) -> MarkHook(Er(HookWrapped(n), env), HookName(n), HookWhy(n, env))
    [] n.t = "SequenceExpression" -> ErSeq(n.c[1].c, env, <<>>, <<>>)
    [] IsRedispatch(n, env) ->
         \* tM.call(tR, a...)  with  tM = tR.m   ==>   R.m(a...)
         LET m == RedispMember(n, env) IN
         CN("CallExpression", "", "",
            << AddOrigin(CN("MemberExpression", "", "",
                            <<Er(RedispRecv(n), env), Er(m.c[2], env)>>, 0), RedispName(n)),
               CN("_L", "", "", [i \in 1..Len(RedispArgs(n)) |-> Er(RedispArgs(n)[i], env)], 0) >>, 0)
    [] IsSpreadTemp(n, env) ->
         \* ...t  with  t = [...E]   ==>   ...E
         LET r == StripParen(env.b[n.c[1].v].raw) IN
         CN("_arg", "", "spread", <<AddOrigin(Er(r.c[1].c[1].c[1], env), n.c[1].v)>>, 0)
    [] n.t = "_L" /\ IsStmtList(n) -> CNof(n, ErStmts(n.c, env, <<>>))
    [] n.t = "ArrowFunctionExpression" ->
         \* => { return E }   ==>   => E      (after injected declarations are gone)
         LET ps == Er(n.c[1], env)
             body == n.c[2]
             stmts == IF body.t = "BlockStatement" THEN ErStmts(body.c[1].c, env, <<>>) ELSE <<>>
         IN IF body.t = "BlockStatement" /\ Len(stmts) = 1
               /\ stmts[1].t = "ReturnStatement" /\ stmts[1].c[1].t # "Null"
            THEN CNof(n, <<ps, stmts[1].c[1]>>)
            ELSE CNof(n, <<ps, Er(body, env)>>)
    [] OTHER -> CNof(n, ErKids(n, env))

(* does identifier x stand for the guard variable g (directly or through t1 = t0 aliases)? *)
IsHeadAlias(x, env, g) ==
  LET sx == StripParen(x) IN
  /\ sx.t = "Identifier"
  /\ \/ sx.v = g
     \/ /\ IsInjIdent(sx, env) /\ Bound(env, sx.v)
        /\ IsHeadAlias(env.b[sx.v].raw, env, g)

D21Mark == "#D21-optional-call-loses-receiver"
HasReceiver(raw) ==
  LET r == StripParen(raw) IN
  \/ r.t = "MemberExpression"
  \/ r.t = "OptionalChainingExpression" /\ r.c[1].t = "MemberExpression"

Opt(flag, base) ==
  CN("OptionalChainingExpression", "", IF flag THEN "optional=true" ELSE "optional=false", <<base>>, 0)

(* erasure along the spine of a lowered optional chain: REST in                            *)
(*    (g = B, g == null ? undefined : REST)                                                *)
(* every plain member / call on the way from the top of REST down to g is a link of the    *)
(* original chain; the link that sits directly on g is the optional one                    *)
ErSpine(n, env, g) ==
  CASE n.t = "ParenthesisExpression" -> ErSpine(n.c[1], env, g)
    [] n.t = "Identifier" ->
         IF n.v = g THEN AddOrigin(env.b[g].er, g)
         ELSE IF IsInjIdent(n, env) /\ Bound(env, n.v)
              THEN AddOrigin(ErSpine(env.b[n.v].raw, env, g), n.v)
              ELSE Er(n, env)
    [] IsHookCall(n) -> MarkHook(ErSpine(HookWrapped(n), env, g), HookName(n), HookWhy(n, env))
    [] n.t = "SequenceExpression" ->
         \* (t1 = g, t2 = t1.m, hook(t2.call(t1, ..), ..)) : bindings, then the spine continues
         LET RECURSIVE Go(_, _, _)
             Go(elems, e2, names) ==
               IF Len(elems) = 1 THEN CheckConsumed(ErSpine(Head(elems), e2, g), names)
               ELSE LET e == StripParen(Head(elems)) IN
                    IF IsTempAssign(e, e2)
                    THEN Go(Tail(elems), Bind(e2, e.c[1].v, e.c[2], Er(e.c[2], e2)), Append(names, e.c[1].v))
                    ELSE Bad("unexpected element in a lowered optional chain")
         IN IF n.c[1].c = <<>> THEN Bad("empty sequence") ELSE Go(n.c[1].c, env, <<>>)
    [] IsRedispatch(n, env) ->
         LET m == RedispMember(n, env)
             r == RedispRecv(n)
             args == CN("_L", "", "", [i \in 1..Len(RedispArgs(n)) |-> Er(RedispArgs(n)[i], env)], 0)
         IN IF IsHeadAlias(n.c[1].c[1], env, g)
            THEN \* o.f?.(a):  (t0 = o, t1 = t0.f, t1 == null ? undefined : t1.call(t0, a))
                 Opt(TRUE, CN("CallExpression", "", "",
                       << AddOrigin(CN("MemberExpression", "", "",
                                       <<Er(r, env), Er(m.c[2], env)>>, 0), RedispName(n)),
                          args >>, 0))
            ELSE \* recv.m(a) on the spine; the member link is optional iff recv is g
                 Opt(FALSE, CN("CallExpression", "", "",
                       << AddOrigin(Opt(IsHeadAlias(r, env, g),
                                        CN("MemberExpression", "", "",
                                           <<ErSpine(r, env, g), Er(m.c[2], env)>>, 0)), RedispName(n)),
                          args >>, 0))
    [] n.t = "MemberExpression" ->
         Opt(IsHeadAlias(n.c[1], env, g),
             CN("MemberExpression", "", "", <<ErSpine(n.c[1], env, g), Er(n.c[2], env)>>, 0))
    [] n.t = "CallExpression" ->
         \* g(args) with g = X.f / X?.y.f : the optional call  X.f?.(args)  has lost its receiver
         \* (named deviation D21, a C01 matter: the syntax erases back to the input all the same)
         LET c == Opt(IsHeadAlias(n.c[1], env, g),
                      CN("CallExpression", "", "", <<ErSpine(n.c[1], env, g), Er(n.c[2], env)>>, 0))
         IN IF IsHeadAlias(n.c[1], env, g) /\ Bound(env, g) /\ HasReceiver(env.b[g].raw)
            THEN AddOrigin(c, D21Mark) ELSE c
    [] n.t = "OptionalChainingExpression" ->
         \* upper part of the chain, left as it was: keep its flags, continue below
         LET b == n.c[1] IN
         IF b.t \in {"MemberExpression", "CallExpression"}
         THEN CN(n.t, n.v, IF IsHeadAlias(b.c[1], env, g) THEN "optional=true" ELSE n.a,
                 <<CN(b.t, b.v, b.a, <<ErSpine(b.c[1], env, g), Er(b.c[2], env)>>, 0)>>, 0)
         ELSE Er(n, env)
    [] OTHER -> Er(n, env)

-----------------------------------------------------------------------------
(* Injected names of an output: declared by an initialiser-less `let`, absent from input *)
RECURSIVE LetNames(_)
LetNames(n) ==
  (IF n.t = "VariableDeclaration" /\ n.v = "let"
      /\ \A i \in 1..Len(n.c[1].c) : n.c[1].c[i].c[2].t = "Null" /\ n.c[1].c[i].c[1].t = "Identifier"
   THEN {n.c[1].c[i].c[1].v : i \in 1..Len(n.c[1].c)} ELSE {})
  \cup UNION {LetNames(n.c[i]) : i \in 1..Len(n.c)}

Injected(out, in) == LetNames(out) \ Names(in)

(* names declared by an initialiser-less `let` whose spelling does not carry the reserved prefix *)
RECURSIVE LetNamesUnreserved(_)
LetNamesUnreserved(n) ==
  (IF n.t = "VariableDeclaration" /\ n.v = "let"
      /\ \A i \in 1..Len(n.c[1].c) : n.c[1].c[i].c[2].t = "Null" /\ n.c[1].c[i].c[1].t = "Identifier"
   THEN {n.c[1].c[i].c[1].v : i \in {j \in 1..Len(n.c[1].c) : n.c[1].c[j].c[1].a \notin {"rp", "name;rp"}}} ELSE {})
  \cup UNION {LetNamesUnreserved(n.c[i]) : i \in 1..Len(n.c)}

-----------------------------------------------------------------------------
(* Matching the erased output against the canonical input.                                 *)
(* Result: [ok, why, devs]; devs = named deviations that were needed (known findings).     *)

PureTarget(t) ==
  \/ t.t = "Identifier"
  \/ /\ t.t = "MemberExpression"
     /\ t.c[1].t \in {"Identifier", "ThisExpression"}
     /\ \/ t.c[2].t \in {"Identifier", "PrivateName"}
        \/ /\ t.c[2].t = "Computed"
           /\ IsLit(t.c[2].c[1])        \* o[k]: the key value k is coerced to a property key twice

MOk == [ok |-> TRUE, why |-> "", devs |-> {}]
MFail(why) == [ok |-> FALSE, why |-> why, devs |-> {}]
MAnd(x, y) == IF ~x.ok THEN x ELSE IF ~y.ok THEN y
              ELSE [ok |-> TRUE, why |-> "", devs |-> x.devs \cup y.devs]

RECURSIVE Match(_, _), MatchKids(_, _, _)
MatchKids(e, i, k) ==
  IF k > Len(e.c) THEN MOk
  ELSE LET r == Match(e.c[k], i.c[k]) IN
       IF ~r.ok THEN r ELSE MAnd(r, MatchKids(e, i, k + 1))

Match(e, i) ==
  IF e.bad # "" THEN MFail(e.bad)
  ELSE IF /\ i.t = "AssignmentExpression" /\ i.v = "+="
          /\ e.t = "AssignmentExpression" /\ e.v = "="
          /\ e.c[2].t = "BinaryExpression" /\ e.c[2].v = "+" /\ e.c[2].h # ""
  THEN \* T = hook(T + R, ..)  against  T += R
       MAnd(MAnd(Match(e.c[1], i.c[1]), Match(e.c[2].c[1], i.c[1])),
            MAnd(Match(e.c[2].c[2], i.c[2]),
                 IF PureTarget(i.c[1]) THEN MOk
                 ELSE [ok |-> TRUE, why |-> "", devs |-> {"D6-compound-assignment-target-evaluated-twice"}]))
  ELSE IF e.t # i.t \/ e.v # i.v \/ e.a # i.a \/ Len(e.c) # Len(i.c)
  THEN MFail("at input node " \o ToString(i.id) \o " (" \o i.t \o "): output has " \o e.t \o " " \o e.v)
  ELSE MatchKids(e, i, 1)

(* does the erased tree carry the origin mark x somewhere? *)
RECURSIVE HasOrigin(_, _)
HasOrigin(e, x) == (\E j \in 1..Len(e.o) : e.o[j] = x) \/ \E k \in 1..Len(e.c) : HasOrigin(e.c[k], x)

(* every mark in an erased tree: sequence of [h, hw, t, v] *)
RECURSIVE Marks(_)
RECURSIVE FlatSeq(_)
FlatSeq(ss) == IF ss = <<>> THEN <<>> ELSE Head(ss) \o FlatSeq(Tail(ss))
Marks(e) ==
  (IF e.h # "" THEN << [h |-> e.h, hw |-> e.hw, t |-> e.t, v |-> e.v] >> ELSE <<>>)
  \o FlatSeq([k \in 1..Len(e.c) |-> Marks(e.c[k])])

=============================================================================
