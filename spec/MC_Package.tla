------------------------------ MODULE MC_Package ------------------------------
EXTENDS Package
VersionsDef == {"modA", "modB", "plain", "err", "chain", "evalv"}
ClassOfDef == [v \in VersionsDef |-> CASE v \in {"modA", "modB", "chain", "evalv"} -> "modified"
                                       [] v = "plain" -> "notmodified"
                                       [] OTHER -> "error"]
=============================================================================
