------------------------------ MODULE Hygiene ------------------------------
(***************************************************************************)
(* Property C06 (static half) on the OUTPUT tree of the real rewriter, and *)
(* property C07 (directive prologues) on paired function bodies.           *)
(*                                                                         *)
(* Hyg walks the raw output in evaluation order with                       *)
(*   scope : injected names declared by the injected `let` of the nearest  *)
(*           enclosing block                                               *)
(*   same  : injected names declared by farther blocks of the SAME         *)
(*           function activation                                           *)
(*   outer : injected names declared in enclosing activations              *)
(*   live  : injected names assigned by an enclosing injected sequence     *)
(*           (at an earlier position) and therefore possibly still needed  *)
(* and returns the set of problems found (strings; "dev:..." = a named     *)
(* deviation).  It is the static counterpart of the two premises that      *)
(* TempLiveness.tla shows sufficient for dynamic safety.                   *)
(***************************************************************************)
EXTENDS Erase

FnKinds == {"FunctionDeclaration", "FunctionExpression", "ArrowFunctionExpression", "_Function",
            "MethodProperty", "GetterProperty", "SetterProperty", "Constructor"}

HasAttr(n, s) == n.a = s   \* single-attribute nodes only

IsRpSpelled(n) == n.t = "Identifier" /\ (n.a = "rp" \/ n.a = "name;rp")
IsNameOnly(n) == n.t = "Identifier" /\ (n.a = "name" \/ n.a = "name;rp")

(* names declared by injected-shape lets directly in a statement list *)
InjLetNamesOf(stmts, inj) ==
  UNION {IF IsInjDecl(stmts[i], [inj |-> inj, b |-> <<>>])
         THEN {stmts[i].c[1].c[j].c[1].v : j \in 1..Len(stmts[i].c[1].c)} ELSE {}
         : i \in 1..Len(stmts)}

(* is one of the names used (outside nested functions) in tree n ? *)
RECURSIVE UsesAny(_, _)
UsesAny(n, names) ==
  IF n.t \in FnKinds THEN FALSE
  ELSE (n.t = "Identifier" /\ n.v \in names /\ ~IsNameOnly(n)) \/ \E k \in 1..Len(n.c) : UsesAny(n.c[k], names)

(* an injected `let` is a lexical declaration: a statement of its block that runs before it and uses one of its   *)
(* names hits the temporal dead zone                                                                              *)
UsedBeforeDeclared(stmts, inj) ==
  \E i \in 1..Len(stmts) :
     /\ IsInjDecl(stmts[i], [inj |-> inj, b |-> <<>>])
     /\ \E j \in 1..(i - 1) : UsesAny(stmts[j], {stmts[i].c[1].c[k].c[1].v : k \in 1..Len(stmts[i].c[1].c)})

(* a temporary of an enclosing activation used in a nested one: the listed finding D10 only where the finding  *)
(* says it happens -- parameter lists of non-arrow functions and instance-field initialisers, which have no     *)
(* block of their own; anywhere else (a nested function BODY) it is a violation                                  *)
OuterUse(S) == IF S.d10pos THEN {"dev:D10-temporary-shared-across-activations"}
               ELSE {"an injected temporary of an enclosing function activation is used in a nested function body"}

RECURSIVE Hyg(_, _), HygSeq(_, _, _), HygKids(_, _)

HygKids(n, S) == UNION {Hyg(n.c[k], S) : k \in 1..Len(n.c)}

(* elements of a sequence expression, left to right *)
HygSeq(elems, S, acc) ==
  IF elems = <<>> THEN acc
  ELSE LET e == StripParen(Head(elems)) IN
       IF e.t = "AssignmentExpression" /\ e.v = "=" /\ e.c[1].t = "Identifier" /\ e.c[1].v \in S.inj
       THEN LET nm == e.c[1].v
                p1 == Hyg(e.c[2], S)
                p2 == IF nm \in S.live THEN {"an injected temporary is reassigned while an enclosing expression still needs it"} ELSE {}
                p3 == IF nm \in S.scope THEN {}
                      ELSE IF nm \in S.outer THEN OuterUse(S)
                      ELSE {"an injected temporary is not declared by the injected let of the block that uses it"}
            IN HygSeq(Tail(elems), [S EXCEPT !.live = @ \cup {nm}], acc \cup p1 \cup p2 \cup p3)
       ELSE HygSeq(Tail(elems), S, acc \cup Hyg(e, S))

Hyg(n, S) ==
  CASE n.t = "BlockStatement" ->
         LET L == InjLetNamesOf(n.c[1].c, S.inj) IN
         (IF UsedBeforeDeclared(n.c[1].c, S.inj)
          THEN {"an injected temporary is used by a statement in front of its declaration (temporal dead zone)"} ELSE {})
         \cup HygKids(n.c[1], [S EXCEPT !.scope = L, !.same = (S.same \cup S.scope) \ L,
                                        !.outer = S.outer \ L, !.live = S.live \ L, !.d10pos = FALSE])
    [] n.t \in FnKinds ->
         \* a new activation: nothing of the enclosing activation may be used in it
         HygKids(n, [S EXCEPT !.scope = {}, !.same = {}, !.outer = S.outer \cup S.same \cup S.scope,
                              !.d10pos = (n.t # "ArrowFunctionExpression")])
    [] n.t \in {"ClassProperty", "PrivateProperty"} /\ (n.a = "isStatic=false") ->
         \* instance field initialisers run once per construction, in an activation of their own
         HygKids(n, [S EXCEPT !.scope = {}, !.same = {}, !.outer = S.outer \cup S.same \cup S.scope, !.d10pos = TRUE])
    [] n.t = "SequenceExpression" -> HygSeq(n.c[1].c, S, {})
    [] n.t = "AssignmentExpression" /\ n.c[1].t = "Identifier" /\ n.c[1].v \in S.inj ->
         {"an injected temporary is assigned outside an injected sequence"} \cup Hyg(n.c[2], S)
    [] n.t = "Identifier" /\ n.v \in S.inj /\ ~IsNameOnly(n) ->
         (IF n.v \in S.scope THEN {}
          ELSE IF n.v \in S.outer THEN OuterUse(S)
          ELSE {"an injected temporary is not declared by the injected let of the block that uses it"})
         \cup (IF n.v \in S.live THEN {} ELSE {"an injected temporary is read before it is assigned"})
    [] n.t = "VariableDeclaration" /\ IsInjDecl(n, [inj |-> S.inj, b |-> <<>>]) -> {}
    [] OTHER -> HygKids(n, S)

Hyg0(out, inj) == Hyg(out, [inj |-> inj, scope |-> {}, same |-> {}, outer |-> {}, live |-> {}, d10pos |-> FALSE])

(* reserved-prefix spelled variable occurrences of a tree, split by whether the rewriter's   *)
(* collision scan is documented to see the position                                           *)
RECURSIVE RpOcc(_, _, _)
(* c = [blk, ex] ; returns set of <<name, scanned>> *)
RpOcc(n, c, tplOn) ==
  (IF IsRpSpelled(n) /\ ~IsNameOnly(n) THEN {<<n.v, c.blk /\ ~c.ex>>} ELSE {})
  \cup UNION {RpOcc(n.c[k],
                    CASE n.t = "BlockStatement" -> [blk |-> TRUE, ex |-> FALSE]
                      [] n.t = "UnaryExpression" /\ n.v = "delete" -> [c EXCEPT !.ex = TRUE]
                      [] n.t = "ArrowFunctionExpression" /\ k = 1 -> [c EXCEPT !.ex = TRUE]
                      [] n.t = "ArrowFunctionExpression" /\ k = 2 /\ n.c[2].t # "BlockStatement" ->
                           [c EXCEPT !.ex = c.ex \/ ~c.blk]
                      [] n.t = "TemplateLiteral" /\ tplOn
                           /\ (\E i \in 1..Len(n.c[1].c) : IsLit(n.c[1].c[i])) -> [c EXCEPT !.ex = TRUE]
                      [] OTHER -> c,
                    tplOn) : k \in 1..Len(n.c)}

(* every identifier spelled with the reserved prefix in a tree *)
RECURSIVE RpNames(_)
RpNames(n) == (IF IsRpSpelled(n) /\ ~IsNameOnly(n) THEN {n.v} ELSE {})
              \cup UNION {RpNames(n.c[k]) : k \in 1..Len(n.c)}

-----------------------------------------------------------------------------
(* C07: directive prologues of the program and of every function body.                       *)
(* DirSeq of a raw statement list = the values of its leading run of directive statements.   *)
RECURSIVE DirSeq(_)
DirSeq(stmts) ==
  IF stmts = <<>> \/ ~IsDirectiveStmt(Head(stmts)) THEN <<>>
  ELSE <<Head(stmts).c[1].v>> \o DirSeq(Tail(stmts))

(* directive prologues of a raw tree, in preorder: one entry for the program and one for each   *)
(* function-like node (the directive prologue of its body block; empty for an expression-     *)
(* bodied arrow, so that an arrow whose body the rewriter turned into `{ return e }` pairs    *)
(* with its original).  The file prologue's own functions are injected code and are skipped.  *)
FnBodyDirs(n) ==
  LET bs == {k \in 1..Len(n.c) : n.c[k].t = "BlockStatement"} IN
  IF bs = {} THEN <<>>
  ELSE DirSeq(n.c[CHOOSE k \in bs : \A k2 \in bs : k <= k2].c[1].c)

RECURSIVE DirList(_)
DirList(n) ==
  IF n.t = "IfStatement" /\ IsPrologueIf(n) THEN <<>>
  ELSE (IF n.t \in {"Script", "Module"} THEN << <<n.t, DirSeq(n.c[1].c)>> >>
        ELSE IF n.t \in FnKinds THEN << <<"fn", FnBodyDirs(n)>> >>
        ELSE <<>>)
       \o FlatSeq([k \in 1..Len(n.c) |-> DirList(n.c[k])])

=============================================================================
