------------------------------- MODULE Session -------------------------------
(***************************************************************************)
(* Property C16 as a state machine over call histories.                    *)
(*                                                                         *)
(* Design: a rewriter instance holds nothing but its configuration; the    *)
(* result of Rewrite(i, file, code) is Result[cfg[i], file, code], a       *)
(* function of (configuration, source text, file name) only.               *)
(*                                                                         *)
(* MC_Session enumerates every history of <= MaxLen calls over a small set *)
(* of instances, files and code classes (modified, not modified, syntax    *)
(* error, refused, modified with a source-map reference) and emits it for  *)
(* replay; TraceSession validates the recorded results of such histories   *)
(* (and of long random ones): at every step the observed result must equal *)
(* the result remembered for the same (configuration, code, file) -- and   *)
(* the result of the same single call on a fresh process.                  *)
(***************************************************************************)
EXTENDS Naturals, Sequences, FiniteSets, TLC, Json

CONSTANTS Insts, Files, Codes, MaxLen

VARIABLES hist
vars == <<hist>>

Init == hist = <<>>
Rewrite(i, f, c) == /\ Len(hist) < MaxLen
                    /\ hist' = Append(hist, [inst |-> i, file |-> f, code |-> c])
Next == \E i \in Insts, f \in Files, c \in Codes : Rewrite(i, f, c)
Spec == Init /\ [][Next]_vars

(* every complete history is emitted once for replay into the real rewriter *)
Emit == Len(hist) = MaxLen => PrintT("REPLAY|" \o ToJson(hist))
=============================================================================
