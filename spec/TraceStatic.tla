---------------------------- MODULE TraceStatic ----------------------------
(***************************************************************************)
(* Trace validator for observations of single rewrite calls.  One TLC      *)
(* state per recorded call.  Each step evaluates the property deciders     *)
(* (C02, C03-static, C04, C05, C12, C15) on the OBSERVED input tree,       *)
(* output tree, status, metrics and effective configuration of the real    *)
(* rewriter and prints one verdict line per (record, property).            *)
(* The post-condition only states that every record was consumed.          *)
(***************************************************************************)
EXTENDS Sites, Hygiene, LiteralsObs, Rewriter, Config, EffectOrder, Json, IOUtils

Recs == ndJsonDeserialize(IOEnv.TRACE)

VARIABLE l
vars == <<l>>

KnownDevWhys == DevWhys
HygDevs == {"dev:D10-temporary-shared-across-activations"}
D6Dev == "D6-compound-assignment-target-evaluated-twice"

Verdict(rid, prop, v, detail) == PrintT("VERDICT|" \o rid \o "|" \o prop \o "|" \o v \o "|" \o ToString(detail))

SetOfSeq(s) == {s[i] : i \in 1..Len(s)}

RECURSIVE DebugCount(_, _)
DebugCount(dbg, tag) ==
  IF dbg = <<>> THEN 0
  ELSE (IF Head(dbg).tag = tag THEN Head(dbg).n ELSE 0) + DebugCount(Tail(dbg), tag)

(* C08 : the output is valid JavaScript of the same kind (parser verdicts are external oracles). *)
(* devs: named deviations that explain a rejection by V8 (a reserved-name clash, see C06).      *)
J08(r, modified, devs) ==
  IF ~modified THEN Verdict(r.rid, "C08", "na", "not modified")
     ELSE IF r.v8_in = "err" THEN Verdict(r.rid, "C08", "na", "V8 rejects the input")
     ELSE IF r.v8_out = "err" /\ devs # {} THEN Verdict(r.rid, "C08", "dev", devs)
     ELSE IF r.v8_out = "err" THEN Verdict(r.rid, "C08", "reject", "V8 rejects the output")
     ELSE IF r.kind_out # r.kind_in THEN Verdict(r.rid, "C08", "reject", <<"kind changed", r.kind_in, r.kind_out>>)
     ELSE IF ~r.has_trailer THEN Verdict(r.rid, "C08", "reject", "no source-map trailer")
     ELSE Verdict(r.rid, "C08", IF r.v8_out = "ok" THEN "ok" ELSE "ok0", r.kind_out)

(* a hooked call that keeps a literal spread argument in place: ...0, ...null (named deviation D24) *)
RECURSIVE HasLitSpreadHook(_)
HasLitSpreadHook(n) ==
  \/ /\ IsHookCall(n)
     /\ LET w == StripParen(HookWrapped(n)) IN
          w.t = "CallExpression" /\ \E i \in 1..Len(w.c[2].c) :
             w.c[2].c[i].t = "_arg" /\ IsSpreadArg(w.c[2].c[i]) /\ IsLit(w.c[2].c[i].c[1])
  \/ \E k \in 1..Len(n.c) : HasLitSpreadHook(n.c[k])

(* a lowered optional chain used as the callee of a call / tag of a template: (a?.m().f)(x).  The input calls f  *)
(* on the value of a?.m(); the lowering turns the callee into a sequence/conditional VALUE, so f runs with       *)
(* this = undefined (named deviation D25).  Shape: a parenthesised chain ending in a member access, with a      *)
(* hooked optional call on its own spine.                                                                        *)
RECURSIVE SpineIds(_)
SpineIds(n) ==
  IF n.t \in {"OptionalChainingExpression", "MemberExpression", "CallExpression"}
  THEN {n.id} \cup SpineIds(n.c[1]) ELSE {}
RECURSIVE HasChainCallee(_, _)
HasChainCallee(n, hookedOpt) ==
  \/ /\ n.t \in {"CallExpression", "TaggedTemplateExpression"}
     /\ n.c[1].t = "ParenthesisExpression"
     /\ LET c == StripParen(n.c[1]) IN
          /\ c.t = "OptionalChainingExpression" /\ c.c[1].t = "MemberExpression"
          /\ SpineIds(c) \cap hookedOpt # {}
  \/ \E k \in 1..Len(n.c) : HasChainCallee(n.c[k], hookedOpt)

(* names the file prologue defines pass-throughs for:  { <name>: noop, ... }  inside the prologue statement *)
RECURSIVE NoopKeys(_)
NoopKeys(n) ==
  (IF n.t = "KeyValueProperty" /\ n.c[1].t = "Identifier" /\ IsIdentNamed(n.c[2], "noop") THEN {n.c[1].v} ELSE {})
  \cup UNION {NoopKeys(n.c[k]) : k \in 1..Len(n.c)}
PrologueKeysOf(out) ==
  UNION {NoopKeys(out.c[1].c[k]) : k \in {j \in 1..Len(out.c[1].c) : IsPrologueIf(out.c[1].c[j])}}

JudgeOk(r) ==
  \E modified \in {r.status = "modified"} :
  \E rin \in {TreeOf(r.in)} :
  \E rout \in {TreeOf(r.out)} :
  \E clash \in {IF modified THEN {o \in RpOcc(rin, [blk |-> FALSE, ex |-> FALSE], r.cfg.tpl # "") : o[1] \in LetNames(rout)} ELSE {}} :
  IF modified /\ ~r.swc_out_ok THEN
    /\ \A p \in {"C01", "C02", "C03", "C04", "C05", "C06", "C07", "C12", "C15"} : Verdict(r.rid, p, "na", "output does not parse, see C08")
    /\ Verdict(r.rid, "C08", "reject", "the rewriter's own parser rejects the output")
  ELSE IF modified /\ r.in_mentions_ns THEN
    \* the input itself calls into the hook namespace (hand-written, or a file rewritten before): its own calls cannot
    \* be told from injected ones, so only the properties that do not count or erase hook calls are decided
    /\ \A p \in {"C01", "C02", "C03", "C04", "C05", "C06", "C12", "C15"} : Verdict(r.rid, p, "na", "the input mentions the hook namespace")
    /\ IF DirList(rin) = DirList(rout) THEN Verdict(r.rid, "C07", "ok0", "directives") ELSE Verdict(r.rid, "C07", "reject", <<"directive prologues differ", DirList(rin), DirList(rout)>>)
    /\ J08(r, modified, {})
  ELSE IF clash # {} THEN
    \* the input itself uses a name the output declares as a temporary: injected names cannot be
    \* told apart structurally, so only C06 (which is about exactly this) is decided
    /\ \A p \in {"C01", "C02", "C03", "C04", "C05", "C07", "C12", "C15"} : Verdict(r.rid, p, "na", "reserved-name clash, see C06")
    /\ J08(r, modified, IF \E o \in clash : o[2] THEN {} ELSE {"dev:D9-reserved-prefix-identifier-in-unscanned-position"})
    /\ IF \E o \in clash : o[2]
       THEN Verdict(r.rid, "C06", "reject", <<"reserved-prefix identifier of the input is captured / redeclared by an injected let", clash>>)
       ELSE Verdict(r.rid, "C06", "dev", {"dev:D9-reserved-prefix-identifier-in-unscanned-position"})
  ELSE
  \* the DOCUMENTED effective configuration (Config.tla) decides what is enabled; the configuration the
  \* code reports is compared with it by JudgeConfig and used for nothing else here
  \E dcfg \in {LET E == Effective(r.raw) IN
                [r.cfg EXCEPT !.plus = E.plus, !.tpl = E.tpl, !.alldsts = E.alldsts, !.verbosity = E.verbosity,
                              !.methods = [i \in 1..Len(E.methods) |->
                                             [src |-> E.methods[i].src, dst |-> E.methods[i].dst, bare |-> E.methods[i].bare]]]} :
  \E ci \in {Er(rin, EmptyEnv({}))} :
  \E e \in {IF modified THEN Er(rout, EmptyEnv(Injected(rout, rin))) ELSE ci} :
  \E m \in {Match(e, ci)} :
  \E marks \in {Marks(e)} :
  \E sites \in {SitesOf(rin, Ctx0, dcfg)} :
  \E pairs \in {IF m.ok THEN HookPairs(e, ci) ELSE {}} :
  \E hookedIds \in {{p[1] : p \in pairs}} :
  LET siteIdx == 1..Len(sites)
      missing == {i \in siteIdx : sites[i].req /\ sites[i].id \notin hookedIds}
      strayPairs == {p \in pairs : ~\E i \in siteIdx :
                        sites[i].id = p[1] /\ sites[i].en /\ sites[i].dst = p[2]}
      alld == SetOfSeq(dcfg.alldsts)
      strayNames == IF modified /\ ~r.in_mentions_ns THEN NamespaceRefs(rout) \ alld ELSE {}
      \* D7b is the listed finding only where the plus operator is DISABLED; an omitted sum operand under an
      \* enabled plus operator is a different failure of the same property
      whys0 == {marks[i].hw : i \in 1..Len(marks)} \ {""}
      D7bWhy == "dev:D7b-nonconstant-sum-operand-omitted"
      whys == IF dcfg.plus # "" /\ D7bWhy \in whys0
              THEN (whys0 \ {D7bWhy}) \cup {"a non-constant sum operand is omitted from the hook arguments although the plus operator is enabled"}
              ELSE whys0
      nhooks == Len(marks)                  \* hook call sites actually present in the output
      hookedTags == {sites[i].tag : i \in {j \in siteIdx : sites[j].id \in hookedIds}}
      tagCount(tag) == Cardinality({i \in siteIdx : sites[i].id \in hookedIds /\ sites[i].tag = tag})
      dbgTags == {r.debug[i].tag : i \in 1..Len(r.debug)}
  IN
  \* ---- C02 : erasing the instrumentation gives back the input
  /\ IF ~m.ok THEN Verdict(r.rid, "C02", "reject", m.why)
     ELSE IF m.devs # {} THEN Verdict(r.rid, "C02", "dev", m.devs)
     ELSE Verdict(r.rid, "C02", "ok", IF modified THEN "erased" ELSE "untouched")
  \* ---- C01 (static hint for the dynamic decider) : a lowered optional call that dropped its receiver
  \* ---- hints for the dynamic decider (H01): shapes of named deviations it may have to attribute
  /\ IF m.ok /\ HasOrigin(e, D21Mark) THEN Verdict(r.rid, "H01", "dev", {"D21-optional-call-loses-receiver"})
     ELSE TRUE
  /\ IF m.ok /\ \E i \in siteIdx : sites[i].ns /\ sites[i].id \in hookedIds
     THEN Verdict(r.rid, "H01", "dev", {"D22-arguments-evaluated-before-absent-callee-throws"}) ELSE TRUE
  /\ IF modified /\ HasLitSpreadHook(rout)
     THEN Verdict(r.rid, "H01", "dev", {"D24-literal-spread-iterated-after-later-arguments"}) ELSE TRUE
  /\ IF m.ok /\ HasChainCallee(rin, {sites[i].id : i \in {j \in siteIdx : sites[j].k = "optcall" /\ sites[j].id \in hookedIds}})
     THEN Verdict(r.rid, "H01", "dev", {"D25-lowered-chain-as-callee-loses-this"}) ELSE TRUE
  \* ---- C01 (static half) : the symbolic order of effects of the output is that of the input
  /\ IF ~modified THEN Verdict(r.rid, "C01", "na", "not modified")
     ELSE IF r.in_mentions_ns THEN Verdict(r.rid, "C01", "na", "the input mentions the hook namespace")
     ELSE \E effOut \in {EffectsOf(rout, Injected(rout, rin), TRUE, {}, {})} :
          \E diff \in {FirstEffectDiff(EffectsOf(rin, {}, FALSE, {}, {}), effOut, 1)} :
          \E d21 \in {D21Ids(rin, {sites[i].id : i \in {j \in siteIdx : sites[j].k = "optcall" /\ sites[j].id \in hookedIds}})} :
          \E bareIds \in {{sites[i].id : i \in {j \in siteIdx : sites[j].k = "bare" /\ sites[j].id \in hookedIds}}} :
          IF diff = "" THEN Verdict(r.rid, "C01", "ok", Len(marks))
          ELSE IF D6Dev \in m.devs THEN Verdict(r.rid, "C01", "dev", {D6Dev})
          ELSE IF "dev:D7b-nonconstant-sum-operand-omitted" \in whys THEN Verdict(r.rid, "C01", "dev", {"D7b-nonconstant-sum-operand-omitted"})
          \* the other named deviations are decided by re-evaluating the INPUT with exactly that deviation: equal then
          ELSE IF bareIds # {} /\ FirstEffectDiff(EffectsOf(rin, {}, FALSE, bareIds, {}), effOut, 1) = ""
               THEN Verdict(r.rid, "C01", "dev", {"D23-bare-callee-read-after-arguments"})
          ELSE IF d21 # {} /\ FirstEffectDiff(EffectsOf(rin, {}, FALSE, {}, d21), effOut, 1) = ""
               THEN Verdict(r.rid, "C01", "dev", {"D21-optional-call-loses-receiver"})
          ELSE IF bareIds # {} /\ d21 # {} /\ FirstEffectDiff(EffectsOf(rin, {}, FALSE, bareIds, d21), effOut, 1) = ""
               THEN Verdict(r.rid, "C01", "dev", {"D21-optional-call-loses-receiver", "D23-bare-callee-read-after-arguments"})
          ELSE Verdict(r.rid, "C01", "reject", diff)
  \* ---- C03 (static half) : hook argument lists
  /\ IF whys \subseteq KnownDevWhys /\ whys # {} THEN Verdict(r.rid, "C03", "dev", whys)
     ELSE IF whys # {} THEN Verdict(r.rid, "C03", "reject", whys)
     ELSE Verdict(r.rid, "C03", IF Len(marks) > 0 THEN "ok" ELSE "na", Len(marks))
  \* ---- C04 : every required site is hooked
  /\ IF ~m.ok THEN Verdict(r.rid, "C04", "na", "C02 failed")
     ELSE IF missing # {} THEN
            LET i == CHOOSE i \in missing : \A j \in missing : sites[i].id <= sites[j].id IN
            Verdict(r.rid, "C04", "reject",
                    "required " \o sites[i].k \o " site not hooked: input node " \o ToString(sites[i].id)
                    \o " tag " \o sites[i].tag)
     ELSE Verdict(r.rid, "C04", IF \E i \in siteIdx : sites[i].req THEN "ok" ELSE "na",
                  Cardinality({i \in siteIdx : sites[i].req}))
  \* ---- C05 : only enabled operations are hooked, only configured names are used
  /\ IF ~m.ok THEN Verdict(r.rid, "C05", "na", "C02 failed")
     ELSE IF strayPairs # {} THEN Verdict(r.rid, "C05", "reject", <<"hook on an operation the configuration does not enable, or wrong hook name", strayPairs>>)
     ELSE IF strayNames # {} THEN Verdict(r.rid, "C05", "reject", <<"hook namespace dereferenced with unconfigured names", strayNames>>)
     ELSE IF modified /\ r.has_prologue /\ PrologueKeysOf(rout) # alld
          THEN Verdict(r.rid, "C05", "reject", <<"the prologue defines pass-throughs for", PrologueKeysOf(rout), "configured names", alld>>)
     ELSE IF dcfg.alldsts = <<>> /\ modified THEN Verdict(r.rid, "C05", "reject", "modified with an empty method list")
     ELSE Verdict(r.rid, "C05", "ok", Cardinality({i \in siteIdx : ~sites[i].en}))
  \* ---- C06 (static half) : hygiene of injected temporaries in the real output
  /\ IF ~modified THEN Verdict(r.rid, "C06", "na", "not modified")
     ELSE \E inj \in {Injected(rout, rin)} :
          \E probs \in {Hyg0(rout, inj)} :
          LET letNames == LetNames(rout)
              undeclared == {nm \in RpNames(rout) : nm \notin letNames /\ nm \notin Names(rin)}
              hard == {p \in probs : p \notin HygDevs}
              \* a temporary that does not carry the reserved prefix is not protected by the refusal rule
              unreserved == inj \cap LetNamesUnreserved(rout)
          IN IF hard # {} THEN Verdict(r.rid, "C06", "reject", hard)
             ELSE IF unreserved # {} THEN Verdict(r.rid, "C06", "reject", <<"injected names outside the reserved prefix", unreserved>>)
             ELSE IF undeclared # {} THEN Verdict(r.rid, "C06", "reject", <<"injected names left undeclared", undeclared>>)
             ELSE IF probs # {} THEN Verdict(r.rid, "C06", "dev", probs)
             ELSE Verdict(r.rid, "C06", IF inj # {} THEN "ok" ELSE "ok0", Cardinality(inj))
  \* ---- C07 : directive prologues of the program and of every function body
  /\ IF ~modified THEN Verdict(r.rid, "C07", "na", "not modified")
     ELSE \E din \in {DirList(rin)} : \E dout \in {DirList(rout)} :
          IF din = dout
          THEN Verdict(r.rid, "C07", IF \E k \in 1..Len(din) : din[k][2] # <<>> THEN "ok" ELSE "ok0", Len(din))
          \* the listed deviation D7b leaves a sum operand in place and hoists LATER operands in front of it: functions
          \* inside those operands change places in the text, each with its own prologue.  Only there, the comparison
          \* is by function (same prologues, same number of times) instead of by position
          ELSE IF /\ dcfg.plus = "" /\ D7bWhy \in whys0 /\ Len(din) = Len(dout) /\ din[1] = dout[1]
                  /\ \A k \in 1..Len(din) : Cardinality({j \in 1..Len(din) : din[j] = din[k]}) = Cardinality({j \in 1..Len(dout) : dout[j] = din[k]})
          THEN Verdict(r.rid, "C07", "ok", <<"same prologues, functions moved with their operands (D7b)", Len(din)>>)
          ELSE Verdict(r.rid, "C07", "reject", <<"directive prologues differ", din, dout>>)
  /\ J08(r, modified, {})
  \* ---- C12 : status agrees with content
  /\ IF modified /\ (nhooks = 0 \/ ~r.has_prologue \/ ~r.has_trailer \/ r.content_empty)
     THEN Verdict(r.rid, "C12", "reject", <<"modified but", nhooks, r.has_prologue, r.has_trailer, r.content_empty>>)
     ELSE IF ~modified /\ (~r.content_empty \/ r.status # "notmodified")
     THEN Verdict(r.rid, "C12", "reject", <<"not modified but", r.status, r.content_empty>>)
     ELSE Verdict(r.rid, "C12", "ok", r.status)
  \* ---- C15 : metrics equal what was emitted
  /\ IF dcfg.verbosity = "OFF"
     THEN IF r.count = 0 /\ ~r.has_debug THEN Verdict(r.rid, "C15", "ok", "off")
          ELSE Verdict(r.rid, "C15", "reject", <<"verbosity off but", r.count, r.has_debug>>)
     ELSE IF r.count # nhooks /\ m.ok /\ D6Dev \in m.devs /\ r.count = Cardinality(pairs)
          \* the duplicated += target (named deviation D6) repeats the hook calls nested in it: they
          \* are emitted twice and counted once
          THEN Verdict(r.rid, "C15", "dev", {D6Dev})
     ELSE IF r.count # nhooks THEN Verdict(r.rid, "C15", "reject", <<"count", r.count, "hook sites", nhooks>>)
     ELSE IF dcfg.verbosity = "DEBUG" /\ ~r.has_debug THEN Verdict(r.rid, "C15", "reject", "no debug breakdown")
     ELSE IF dcfg.verbosity # "DEBUG" /\ r.has_debug THEN Verdict(r.rid, "C15", "reject", "unexpected debug breakdown")
     ELSE IF dcfg.verbosity = "DEBUG" /\ m.ok /\
             \E tag \in hookedTags \cup dbgTags : tagCount(tag) # DebugCount(r.debug, tag)
     THEN Verdict(r.rid, "C15", "reject", <<"debug breakdown", r.debug, "hooked tags", hookedTags>>)
     ELSE IF r.mstatus # r.status \/ ~r.mfile_ok THEN Verdict(r.rid, "C15", "reject", "status/file echo")
     ELSE Verdict(r.rid, "C15", IF nhooks > 0 THEN "ok" ELSE "na", nhooks)

(* C13: every call returns a result or an error value carrying a diagnostic *)
JudgeTotal(r) ==
  IF r.outcome \in {"ok", "noparse", "ok_total"} THEN Verdict(r.rid, "C13", "ok", "result")
  ELSE IF r.outcome = "err" THEN
         IF r.error # "" THEN Verdict(r.rid, "C13", "ok", "error value")
         ELSE Verdict(r.rid, "C13", "reject", "error without diagnostic")
  ELSE Verdict(r.rid, "C13", "reject", <<r.outcome, r.error>>)

(* C14: the literal report (independent of whether the file was modified) *)
JudgeLiterals(r) ==
  \E rin \in {TreeOf(r.in)} :
  \E why \in {LiteralsWhy(r, rin)} :
    IF why # "" THEN Verdict(r.rid, "C14", "reject", why)
    ELSE Verdict(r.rid, "C14", IF r.cfg.literals /\ Len(r.literal_locs) > 0 THEN "ok" ELSE "ok0", Len(r.literal_locs))

(* L1 conformance: the design model (Rewriter.tla) predicts the observation.  A disagreement is *)
(* MODEL DRIFT, reported as such, never a property violation.                                   *)
DbgOf(pred) == {<<t, pred.dbg[t]>> : t \in DOMAIN pred.dbg}
JudgeModel(r) ==
  \E rin \in {TreeOf(r.in)} :
  \E pred \in {Rewrite(rin, r.cfg)} :
    IF pred.status # r.status
    THEN Verdict(r.rid, "L1", "drift", <<"status predicted", pred.status, "observed", r.status>>)
    ELSE IF r.has_events /\ pred.ev # [i \in 1..Len(r.events) |-> <<r.events[i].ev, r.events[i].a, r.events[i].b, r.events[i].s>>]
    THEN Verdict(r.rid, "L1", "drift", <<"traversal events differ; first difference at",
                 CHOOSE i \in 1..(Len(r.events) + 1) :
                   /\ (i > Len(r.events) \/ i > Len(pred.ev) \/ pred.ev[i] # <<r.events[i].ev, r.events[i].a, r.events[i].b, r.events[i].s>>)
                   /\ \A j \in 1..(i - 1) : j <= Len(pred.ev) /\ pred.ev[j] = <<r.events[j].ev, r.events[j].a, r.events[j].b, r.events[j].s>>>>)
    ELSE IF r.status # "modified" THEN Verdict(r.rid, "L1", "ok0", r.status)
    ELSE \E rout \in {TreeOf(r.out)} :
         \E d \in {IF ~r.swc_out_ok THEN "output does not parse" ELSE ShapeDiff(Shape(pred.out), Shape(rout))} :
         IF d # "" THEN Verdict(r.rid, "L1", "drift", d)
         ELSE IF pred.count # r.count THEN Verdict(r.rid, "L1", "drift", <<"count predicted", pred.count, "observed", r.count>>)
         ELSE IF r.has_debug /\ DbgOf(pred) # {<<r.debug[i].tag, r.debug[i].n>> : i \in 1..Len(r.debug)}
              THEN Verdict(r.rid, "L1", "drift", <<"debug predicted", DbgOf(pred), "observed", r.debug>>)
         ELSE Verdict(r.rid, "L1", "ok", pred.count)

JudgeCancelled(r) ==
  \* a refused rewrite of a parsable input: the model must predict the refusal too
  \E rin \in {TreeOf(r.in)} :
  \E pred \in {Rewrite(rin, r.cfg)} :
    IF pred.outcome = "cancelled" /\ (~r.has_events \/ pred.ev = [i \in 1..Len(r.events) |-> <<r.events[i].ev, r.events[i].a, r.events[i].b, r.events[i].s>>])
    THEN Verdict(r.rid, "L1", "ok", "refusal predicted")
    ELSE IF pred.outcome = "cancelled" THEN Verdict(r.rid, "L1", "drift", "refusal predicted, traversal events differ")
    ELSE Verdict(r.rid, "L1", "drift", <<"observed a refusal, predicted", pred.status>>)

(* L0 pipeline self-check for TLC-enumerated programs: parsing the printed text gives back the enumerated tree *)
JudgeGenerated(r) ==
  IF ~r.has_gen THEN TRUE
  ELSE \E d \in {ShapeDiff(Shape(TreeOf(r.gen)), Shape(TreeOf(r.in)))} :
       IF d = "" THEN Verdict(r.rid, "L0", "ok", "printed tree parses back")
       ELSE Verdict(r.rid, "L0", "toolerror", d)

(* C05, configuration clause: omitted options take their documented defaults *)
JudgeConfig(r) ==
  \E why \in {ConfigWhy(r.raw, r.cfg, r.prefix_six_lower)} :
    IF why = "" THEN Verdict(r.rid, "C05", IF ~r.raw.prefix_given \/ r.raw.chain = "omitted" \/ r.raw.literals = "omitted" THEN "ok" ELSE "ok0", "effective configuration")
    ELSE Verdict(r.rid, "C05", "reject", <<"effective configuration differs from the documented defaulting", why>>)

Judge(r) ==
  /\ JudgeTotal(r)
  /\ (IF r.outcome = "ok" THEN JudgeConfig(r) ELSE TRUE)
  /\ (IF r.outcome = "ok" THEN JudgeGenerated(r) ELSE TRUE)
  /\ (IF r.outcome = "ok" THEN JudgeModel(r) ELSE IF r.refused THEN JudgeCancelled(r) ELSE TRUE)
  /\ IF r.outcome = "ok" THEN JudgeOk(r) /\ JudgeLiterals(r) ELSE TRUE

Init == l = 1
Next == /\ l <= Len(Recs)
        /\ Judge(Recs[l])
        /\ l' = l + 1
Spec == Init /\ [][Next]_vars

AllConsumed == TLCGet("stats").diameter - 1 = Len(Recs)
=============================================================================
