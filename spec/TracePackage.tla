---------------------------- MODULE TracePackage ----------------------------
(***************************************************************************)
(* Trace validator for histories replayed against the real package glue    *)
(* (main.js + js/source-map + js/stack-trace).  It steps the Package.tla   *)
(* state (cache / loaded) along the recorded events and compares what the  *)
(* package reported with what the model expects:                           *)
(*  C11 every frame inside a rewritten file reports the ORIGINAL path and  *)
(*      line of the text in use (through chained maps: the pre-            *)
(*      transpilation file and line), on both prepareStackTrace paths;     *)
(*      files the package knows nothing about are left unchanged; nothing  *)
(*      throws;                                                            *)
(*  C12 a not-modified result hands the caller's text back byte for byte;  *)
(*      a modified one carries a hook call and the trailer.                *)
(* The first record of a trace is the table of generator-known facts:      *)
(*   [ev: "init", classes: version -> class, lines: version -> [path, line]] *)
(***************************************************************************)
EXTENDS Naturals, Sequences, FiniteSets, TLC, Json, IOUtils, SourceMapChain

Recs == ndJsonDeserialize(IOEnv.TRACE)
VARIABLES l, cache, loaded, tab
vars == <<l, cache, loaded, tab>>

Verdict(rid, prop, v, detail) == PrintT("VERDICT|" \o rid \o "|" \o prop \o "|" \o v \o "|" \o ToString(detail))

Init == l = 1 /\ cache = <<>> /\ loaded = <<>> /\ tab = [classes |-> <<>>, lines |-> <<>>, maps |-> <<>>]

Get(f, k) == IF k \in DOMAIN f THEN f[k] ELSE "none"

InitEv(e) == e.ev = "init" /\ tab' = [classes |-> e.classes, lines |-> e.lines, maps |-> e.maps]
             /\ cache' = <<>> /\ loaded' = <<>>

RewriteJudge(e, cls) ==
     /\ IF e.threw THEN Verdict(e.rid, "C11", "reject", "the package threw")
        ELSE IF cls = "error" THEN
             IF e.status = "error" THEN Verdict(e.rid, "C12", "ok0", "error propagated") ELSE Verdict(e.rid, "C12", "reject", "native error swallowed")
        ELSE IF cls = "notmodified" THEN
             IF e.status = "notmodified" /\ e.same_text THEN Verdict(e.rid, "C12", "ok", "caller's text handed back")
             ELSE Verdict(e.rid, "C12", "reject", <<"not-modified input but", e.status, "same text:", e.same_text>>)
        ELSE IF e.status = "modified" /\ e.has_trailer /\ e.has_hook /\ ~e.same_text THEN Verdict(e.rid, "C12", "ok", "modified")
             ELSE Verdict(e.rid, "C12", "reject", <<"modified input but", e.status, e.has_trailer, e.has_hook, e.same_text>>)
     \* C16 at the package level: the package's answer is the fresh native answer for (configuration, text, file)
     /\ IF e.threw \/ cls = "error" THEN TRUE
        ELSE IF e.fresh_same THEN Verdict(e.rid, "C16", "ok", cls)
        ELSE Verdict(e.rid, "C16", "reject", <<"the package's result differs from a fresh call in", e.fresh_diff, "after earlier calls on this rewriter">>)

RewriteEv(e) ==
  /\ e.ev = "rewrite"
  /\ LET cls == tab.classes[e.version] IN
     /\ RewriteJudge(e, cls)
     /\ cache' = CASE cls = "modified" -> (e.file :> e.version) @@ cache
                   [] cls = "notmodified" -> (e.file :> "none") @@ cache
                   [] OTHER -> cache
     /\ loaded' = IF cls = "error" THEN loaded ELSE (e.file :> e.version) @@ loaded
  /\ UNCHANGED tab

(* a rewrite during which the package's own bookkeeping fails (the map store refuses the write): the call still *)
(* returns, and what it returns is still the native result -- status and content agree (C12), nothing is thrown *)
(* (C11).  Which map the store holds afterwards is not specified: such histories never look the file up again.  *)
FaultEv(e) ==
  /\ e.ev = "rewrite_fault"
  /\ RewriteJudge(e, tab.classes[e.version])
  /\ UNCHANGED <<cache, loaded, tab>>

FrameOk(fr, exp) == "path" \in DOMAIN fr /\ "line" \in DOMAIN fr /\ fr.path = exp.path /\ fr.line = exp.line

ThrowEv(e) ==
  /\ e.ev = "throw"
  /\ LET v == IF e.file \in DOMAIN loaded THEN loaded[e.file] ELSE e.file \o "|none"
         exp == tab.lines[v]                       \* original path and line of the throw site of the text in use
         bad == {i \in 1..Len(e.frames) : ~FrameOk(e.frames[i], exp)}
     IN IF e.threw THEN Verdict(e.rid, "C11", "reject", "stack-trace preparation threw")
        \* the start of the enclosing function, as a wrapped call site reports it, is translated like a call-site position
        ELSE IF e.enclosing_bad # "" THEN Verdict(e.rid, "C11", "reject", <<"enclosing position of a wrapped call site not translated like a call-site position", e.enclosing_bad>>)
        ELSE IF bad # {} THEN Verdict(e.rid, "C11", "reject", <<"text in use:", v, "expected", exp, "reported", e.frames>>)
        ELSE Verdict(e.rid, "C11", IF tab.classes[v] = "modified" THEN "ok" ELSE "ok0", v)
  /\ UNCHANGED <<cache, loaded, tab>>

(* arbitrary positions of a file, translated through the stack-trace API: each must resolve through the   *)
(* map of the version this STATE says is cached for the file (the most recent modified rewrite, nothing    *)
(* after a not-modified one), with the lookup of SourceMapChain (greatest token <= position, global);     *)
(* a position without a mapped token, and any position of a file without cached map, stays as it is       *)
ProbeEv(e) ==
  /\ e.ev = "probe"
  /\ LET v == IF e.file \in DOMAIN cache THEN cache[e.file] ELSE "none"
         toks == IF v # "none" /\ v \in DOMAIN tab.maps THEN tab.maps[v] ELSE <<>>
         Exp(p) == LET r == Lookup(toks, p.l - 1, p.c - 1) IN
                   IF r.found /\ r.tok.mapped THEN [path |-> r.tok.src, line |-> r.tok.sl + 1, col |-> r.tok.sc + 1]
                   ELSE [path |-> e.file, line |-> p.l, col |-> p.c]
         bad == {i \in 1..Len(e.probes) :
                   LET p == e.probes[i] x == Exp(p) IN p.path # x.path \/ p.line # x.line \/ p.col # x.col}
     IN IF e.threw THEN Verdict(e.rid, "C11", "reject", "position lookup threw")
        ELSE IF v # "none" /\ v \notin DOMAIN tab.maps THEN Verdict(e.rid, "C11", "toolerror", <<"no token table for", v>>)
        ELSE IF bad # {} THEN
             LET i == CHOOSE i \in bad : \A j \in bad : i <= j IN
             Verdict(e.rid, "C11", "reject", <<"map in use:", v, "position", e.probes[i].l, e.probes[i].c, "expected", Exp(e.probes[i]),
                                             "reported", e.probes[i].path, e.probes[i].line, e.probes[i].col>>)
        ELSE Verdict(e.rid, "C11", IF toks # <<>> THEN "ok" ELSE "ok0", <<v, Len(e.probes)>>)
  /\ UNCHANGED <<cache, loaded, tab>>

OriginalEv(e) ==
  /\ e.ev = "original"
  /\ IF e.threw THEN Verdict(e.rid, "C11", "reject", "path/line lookup threw")
     ELSE IF e.kind = "disk-probe" THEN
          \* a file on disk with its own map: the position resolves by the lookup of SourceMapChain in that map
          LET r == Lookup(e.toks, e.line - 1, e.col - 1)
              x == IF r.found /\ r.tok.mapped THEN [path |-> r.tok.src, line |-> r.tok.sl + 1, col |-> r.tok.sc + 1]
                   ELSE [path |-> e.file, line |-> e.line, col |-> e.col]
          IN IF e.res_path = x.path /\ e.res_line = x.line /\ e.res_col = x.col THEN Verdict(e.rid, "C11", "ok", e.kind)
             ELSE Verdict(e.rid, "C11", "reject", <<"lookup in an on-disk map", e.file, e.line, e.col, "expected", x, "got", e.res_path, e.res_line, e.res_col>>)
     ELSE IF e.res_path # e.exp_path \/ e.res_line # e.exp_line
          THEN Verdict(e.rid, "C11", "reject", <<"lookup", e.file, e.line, "expected", e.exp_path, e.exp_line, "got", e.res_path, e.res_line>>)
     ELSE Verdict(e.rid, "C11", "ok", e.kind)
  /\ UNCHANGED <<cache, loaded, tab>>

(* the instance under test is created after another instance with other options: the native rewriter must be   *)
(* handed what a freshly loaded package hands it for the same configuration (nothing of the other instance      *)
(* leaks into it)                                                                                               *)
NewEv(e) ==
  /\ e.ev = "new"
  /\ IF e.cfg_same THEN Verdict(e.rid, "C16", "ok", "configuration as from a fresh package")
     ELSE Verdict(e.rid, "C16", "reject", <<"the native rewriter was created with another configuration than a fresh package creates it with", e.cfg_got>>)
  /\ UNCHANGED <<cache, loaded, tab>>

(* many other files were rewritten: nothing changes for the files of the history *)
BulkEv(e) == e.ev = "bulk" /\ (IF e.threw THEN Verdict(e.rid, "C11", "reject", "rewriting other files threw") ELSE TRUE)
             /\ UNCHANGED <<cache, loaded, tab>>

Next == /\ l <= Len(Recs)
        /\ LET e == Recs[l] IN InitEv(e) \/ RewriteEv(e) \/ FaultEv(e) \/ ThrowEv(e) \/ ProbeEv(e) \/ OriginalEv(e) \/ NewEv(e) \/ BulkEv(e)
        /\ l' = l + 1
Spec == Init /\ [][Next]_vars
AllConsumed == TLCGet("stats").diameter - 1 = Len(Recs)
=============================================================================
