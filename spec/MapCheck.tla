------------------------------ MODULE MapCheck ------------------------------
(***************************************************************************)
(* Properties C09 and C10 on observations of the real rewriter.            *)
(*                                                                         *)
(* C09 works on the paired trees: the normaliser annotates every node of   *)
(* the OUTPUT tree with the result of looking its start position up in the *)
(* emitted map, decoded by the harness's own base64/VLQ decoder:           *)
(*   mf : a token was found (greatest lower bound), mx : a token starts    *)
(*   exactly there, mm : it is a mapped token, ml / mk : original 1-based  *)
(*   line / 0-based column it points to.                                   *)
(* Copied identifiers are paired with their originals by walking the       *)
(* erased output and the canonical input in parallel (Erase.tla).          *)
(***************************************************************************)
EXTENDS Erase, SourceMapChain

StmtKinds == {"ExpressionStatement", "VariableDeclaration", "ReturnStatement", "IfStatement", "ForStatement",
              "ForInStatement", "ForOfStatement", "WhileStatement", "DoWhileStatement", "SwitchStatement",
              "ThrowStatement", "TryStatement", "LabeledStatement", "BlockStatement", "FunctionDeclaration",
              "ClassDeclaration", "Script", "Module", "ExportDeclaration", "ExportDefaultDeclaration",
              "ExportDefaultExpression", "ClassProperty", "PrivateProperty", "ClassMethod", "StaticBlock",
              "BreakStatement", "ContinueStatement", "SwitchCase"}

(* pairs <<out node, in node>> of identifier occurrences copied from the input *)
RECURSIVE IdentPairs(_, _)
IdentPairs(e, i) ==
  IF i.t = "AssignmentExpression" /\ i.v = "+=" /\ e.t = "AssignmentExpression" /\ e.v = "="
     /\ e.c[2].t = "BinaryExpression" /\ Len(e.c[2].c) = 2
  THEN IdentPairs(e.c[1], i.c[1]) \cup IdentPairs(e.c[2].c[2], i.c[2])
  ELSE (IF e.t = "Identifier" /\ i.t = "Identifier" /\ e.o = <<>> /\ e.l > 0 /\ ~IsNameOnlyIdent(i)
        THEN {<<e, i>>} ELSE {})
       \cup UNION {IdentPairs(e.c[k], i.c[k]) : k \in 1..Len(e.c)}

(* statement-like nodes of the output paired with the line span of their original *)
RECURSIVE StmtSpans(_, _)
StmtSpans(e, i) ==
  IF i.t = "AssignmentExpression" /\ i.v = "+=" /\ e.t = "AssignmentExpression" /\ e.v = "="
     /\ e.c[2].t = "BinaryExpression" /\ Len(e.c[2].c) = 2
  THEN StmtSpans(e.c[1], i.c[1]) \cup StmtSpans(e.c[2].c[2], i.c[2])
  ELSE (IF e.t \in StmtKinds /\ e.id > 0 /\ i.l > 0 THEN {<<e.id, i.l, i.el>>} ELSE {})
       \cup UNION {StmtSpans(e.c[k], i.c[k]) : k \in 1..Len(e.c)}

(* injected identifier tokens of the raw output with the id of the nearest enclosing paired     *)
(* statement-like node: <<node, ownerId>>                                                        *)
RECURSIVE InjTokens(_, _, _, _)
InjTokens(n, inj, owner, paired) ==
  IF n.t = "IfStatement" /\ IsPrologueIf(n) THEN {}
  ELSE LET own == IF n.t \in StmtKinds /\ n.id \in paired THEN n.id ELSE owner IN
       (IF n.t = "Identifier" /\ (n.v \in inj \/ n.v = "_ddiast") /\ n.l > 0 THEN {<<n, own>>} ELSE {})
       \cup UNION {InjTokens(n.c[k], inj, own, paired) : k \in 1..Len(n.c)}

(* "" = fine *)
C09Why(r, rin, rout, e, ci, inj) ==
  LET idp == IdentPairs(e, ci)
      badId == {p \in idp : ~(p[1].mx /\ p[1].mm /\ p[1].ml = p[2].l /\ p[1].mk = p[2].k)}
      spans == StmtSpans(e, ci)
      paired == {s[1] : s \in spans}
      toks == InjTokens(rout, inj, 0, paired)
      badTok == {t \in toks : t[1].mf /\ t[1].mm /\ t[2] # 0 /\
                   ~\E s \in spans : s[1] = t[2] /\ s[2] <= t[1].ml /\ t[1].ml <= s[3]}
  IN IF r.map_version # 3 THEN "not a version-3 map"
     ELSE IF r.basename # "" /\ r.map_sources # <<r.basename>> THEN "sources is not the input's base name: " \o ToString(r.map_sources)
     ELSE IF r.map_outside > 0 THEN "a mapping points outside the input text"
     ELSE IF badId # {} THEN
          LET p == CHOOSE p \in badId : TRUE IN
          "identifier " \o p[2].v \o " at input " \o ToString(<<p[2].l, p[2].k>>) \o " (output " \o ToString(<<p[1].l, p[1].k>>)
            \o ") resolves to " \o ToString(<<p[1].mf, p[1].mx, p[1].ml, p[1].mk>>)
     ELSE IF badTok # {} THEN
          LET t == CHOOSE t \in badTok : TRUE IN
          "injected token " \o t[1].v \o " at output " \o ToString(<<t[1].l, t[1].k>>) \o " maps to line " \o ToString(t[1].ml)
            \o " outside the original statement / block it belongs to"
     ELSE ""

C09Count(e, ci) == Cardinality(IdentPairs(e, ci))
=============================================================================
