SPECIFICATION Spec
POSTCONDITION AllConsumed
CHECK_DEADLOCK FALSE
