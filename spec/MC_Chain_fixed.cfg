SPECIFICATION Spec
CONSTANTS G = 4 P = 4 MaxR = 3 MaxO = 2 KeepUnmapped = TRUE Ranges = {FALSE}
INVARIANT ChainIsExact
CHECK_DEADLOCK FALSE
