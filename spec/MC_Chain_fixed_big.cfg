SPECIFICATION Spec
CONSTANTS G = 5 P = 4 MaxR = 3 MaxO = 3 KeepUnmapped = TRUE Ranges = {FALSE}
INVARIANT ChainIsExact
CHECK_DEADLOCK FALSE
