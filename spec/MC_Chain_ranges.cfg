SPECIFICATION Spec
CONSTANTS G = 4 P = 4 MaxR = 2 MaxO = 2 KeepUnmapped = TRUE Ranges = {FALSE, TRUE}
INVARIANT ChainIsExact
CHECK_DEADLOCK FALSE
