-------------------------- MODULE SourceMapReader --------------------------
(***************************************************************************)
(* Design model of how the rewriter finds the file's original source map   *)
(* (rewriter.rs extract_source_map) and what it does with the reference    *)
(* when printing (transform_js / print_js), as a function of the abstract  *)
(* situation:                                                              *)
(*   ref    : kind of the LAST `# sourceMappingURL=` comment of the file    *)
(*   parent : what FileReader::parent answers for the file name            *)
(*   chain, comments : the two settings                                    *)
(* Outputs: is a usable original map found ("yes" / "no" / "either" where  *)
(* the data-URL decoder's leniency is not part of the rewriter's own       *)
(* contract), which outcome classes are possible, how many sourceMapping-  *)
(* URL comments the printed file may contain.                              *)
(* MC_Reader enumerates the full product; each tuple is replayed through   *)
(* the fault-injecting FileReader of the driver.                           *)
(***************************************************************************)
EXTENDS Naturals, Sequences, FiniteSets, TLC

RefKinds == {"none", "inline", "external_rel", "external_abs", "missing", "eisdir", "eacces", "bad_base64",
             "bad_json", "garbage_file", "index_inline", "index_external", "empty_url", "no_comma",
             "charset_inline", "block_comment", "two_comments", "huge", "empty_file", "comment_midfile",
             "long_missing", "long_external", "first_after_code", "percent_missing",
             "dotdot_external"}      \* a relative reference with more `..` than the file name has folders   \* a reference with stray percent signs   \* ...; a reference after code on an earlier line AND a final one    \* references longer than 64 bytes with non-ASCII text around that offset
Parents == {"default", "dirname", "none"}

(* does the reference designate a readable, regular (non-index) version-3 map? *)
Usable(ref, parent) ==
  CASE ref \in {"inline", "block_comment", "two_comments", "external_abs", "first_after_code"} -> "yes"   \* the LAST reference counts
    [] ref \in {"external_rel", "long_external", "dotdot_external"} -> IF parent = "none" THEN "either" ELSE "yes"
    [] ref \in {"charset_inline", "comment_midfile", "huge"} -> "either"
    [] OTHER -> "no"    \* none, missing, unreadable, malformed, index maps, empty

(* the call never panics and never hangs, whatever the reference and the reader do *)
Outcomes(ref, parent) == {"ok", "err"}

(* sourceMappingURL comments in the printed file: always exactly one trailer; the superseded     *)
(* reference is dropped when comments are kept (an earlier, different reference of a             *)
(* concatenated bundle may stay where it was)                                                    *)
MaxUrlComments(ref, comments) == IF comments /\ ref \in {"two_comments", "comment_midfile", "first_after_code"} THEN 2 ELSE 1

(* which map must the trailer carry *)
MustChain(ref, parent, chain) == chain /\ Usable(ref, parent) = "yes"
MustNotChain(ref, parent, chain) == ~chain \/ Usable(ref, parent) = "no"
=============================================================================
