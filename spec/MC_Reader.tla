------------------------------ MODULE MC_Reader ------------------------------
(***************************************************************************)
(* Enumerates the full product of source-map reference situations of       *)
(* SourceMapReader.tla and checks the model's own consistency; every       *)
(* enumerated tuple is emitted (REPLAY line) and replayed through the      *)
(* real rewriter with a fault-injecting FileReader (fault enumeration for  *)
(* C10 / C13).                                                             *)
(***************************************************************************)
EXTENDS SourceMapReader, Json
VARIABLE t
Init == t \in [ref : RefKinds, parent : Parents, chain : BOOLEAN, comments : BOOLEAN]
Next == UNCHANGED t
Spec == Init /\ [][Next]_t

Consistent ==
  /\ Usable(t.ref, t.parent) \in {"yes", "no", "either"}
  /\ ~(MustChain(t.ref, t.parent, t.chain) /\ MustNotChain(t.ref, t.parent, t.chain))
  /\ Outcomes(t.ref, t.parent) \subseteq {"ok", "err"}
  /\ MaxUrlComments(t.ref, t.comments) \in {1, 2}
Emit == PrintT("REPLAY|" \o ToJson(t))
Inv == Consistent /\ Emit
=============================================================================
