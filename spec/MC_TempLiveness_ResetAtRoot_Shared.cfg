SPECIFICATION Spec
CONSTANTS MaxActs = 3 Numbering = "ResetAtRoot" Storage = "Shared"
INVARIANT ReadSeesOwnWrite
CHECK_DEADLOCK FALSE
