------------------------------ MODULE TraceDyn ------------------------------
(***************************************************************************)
(* Trace validator for recorded V8 runs: one record per (program, config,  *)
(* scenario) with the effect logs and outcomes of the input and of the     *)
(* real rewritten output, and the output's hook stream.                    *)
(* Decides C01, the dynamic halves of C03 / C05 / C06.                     *)
(***************************************************************************)
EXTENDS ObsEquiv, Json, IOUtils

Recs == ndJsonDeserialize(IOEnv.TRACE)
VARIABLE l

Verdict(rid, prop, v, detail) == PrintT("VERDICT|" \o rid \o "|" \o prop \o "|" \o v \o "|" \o ToString(detail))

D6 == "D6-compound-assignment-target-evaluated-twice"
D10 == "D10-temporary-shared-across-activations"
D20 == "D20-apply-extra-arguments-handed-to-hook"
D21 == "D21-optional-call-loses-receiver"
D25 == "D25-lowered-chain-as-callee-loses-this"
D22 == "D22-arguments-evaluated-before-absent-callee-throws"
D24 == "D24-literal-spread-iterated-after-later-arguments"
D7b == "D7b-nonconstant-sum-operand-omitted"

Judge(r) ==
  \E why \in {Why(r.inlog, r.outlog, r.inout, r.outout, r.primfault, r.swallow)} :
  \* with a spread this-argument (m.call(...s, ..)) receiver and arguments cannot be told apart statically:
  \* the call-event comparison of method hooks is not applied to such programs
  \E hookwhys \in {{HookWhyDyn(IF r.spreadthis /\ r.hooks[i].check = "log" THEN [r.hooks[i] EXCEPT !.check = "skip"] ELSE r.hooks[i], r.outlog)
                      : i \in 1..Len(r.hooks)} \ {""}} :
  LET sdev == {r.statdevs[i] : i \in 1..Len(r.statdevs)}
      nontrivial == Len(r.inlog) > 0
      \* (programs whose X.….m.call|apply(..) callee path is observable, reassignable or absent are not
      \* compared dynamically at all -- see harness/py/dyn_pipeline.py comparable_dynamically)
      callReadVsArgs == FALSE
      \* D22: f().m.call(g(), ..) with f().m nullish -- the input throws on reading .call before g() runs,
      \* the output has by then evaluated the this-argument and the arguments: same TypeError, the input's
      \* effects are a proper prefix of the output's.  Only in programs where the static decider saw that shape.
      \* D24: m(...0, g()) -- the literal spread stays in the call, g() is extracted in front of it: when the literal
      \* is not iterable the input throws before g() runs.  Both are error-path reorderings: same outcome, and the
      \* output's effects are the input's with extra ones inserted (the error may be caught inside the program, so
      \* the tail need not be empty).  Only in programs where the static decider saw that shape.
      \* (When the program catches the error itself, what the prematurely evaluated arguments did -- assignments,
      \* calls -- changes everything that follows; such runs are attributed to the deviation as a whole.)
      D22shape == /\ (D22 \in sdev \/ D24 \in sdev)
                  /\ \/ r.inout = r.outout /\ OnlyExtraReads(r.inlog, r.outlog)
                     \/ r.swallow
                     \* the prematurely evaluated argument itself throws (reading an unbound variable: ReferenceError)
                     \* before the error of the input (TypeError) can occur: both runs throw, and nothing the input
                     \* did is missing from the output
                     \/ /\ r.inout.k = "throw" /\ r.outout.k = "throw"
                        /\ IsSubseq(Strip(r.inlog), Strip(r.outlog), 1, 1)
      errDev == IF D22 \in sdev THEN D22 ELSE D24
  IN
  \* ---- C01
  /\ IF why = "" \/ callReadVsArgs THEN Verdict(r.rid, "C01", IF nontrivial THEN "ok" ELSE "ok0", r.sid)
     ELSE IF D6 \in sdev THEN Verdict(r.rid, "C01", "dev", {D6})
     ELSE IF D7b \in sdev THEN Verdict(r.rid, "C01", "dev", {D7b})
     ELSE IF D10 \in sdev /\ r.reenter THEN Verdict(r.rid, "C01", "dev", {D10})
     ELSE IF D21 \in sdev THEN Verdict(r.rid, "C01", "dev", {D21})
     ELSE IF D25 \in sdev THEN Verdict(r.rid, "C01", "dev", {D25})
     ELSE IF D22shape THEN Verdict(r.rid, "C01", "dev", {errDev})
     ELSE Verdict(r.rid, "C01", "reject", <<r.sid, why>>)
  \* ---- C03 (dynamic half)
  /\ IF hookwhys # {} /\ D20 \in sdev THEN Verdict(r.rid, "C03", "dev", {D20})
     ELSE IF hookwhys # {} /\ D7b \in sdev THEN Verdict(r.rid, "C03", "dev", {D7b})
     ELSE IF hookwhys # {} THEN Verdict(r.rid, "C03", "reject", <<r.sid, hookwhys>>)
     ELSE Verdict(r.rid, "C03", IF \E i \in 1..Len(r.hooks) : r.hooks[i].check \in {"ok", "log"} THEN "ok" ELSE "ok0", Len(r.hooks))
  \* ---- C06 (dynamic half): re-entrant activations must not disturb each other's temporaries
  /\ IF ~r.reenter THEN Verdict(r.rid, "C06", "na", r.sid)
     ELSE IF why = "" \/ callReadVsArgs THEN Verdict(r.rid, "C06", IF Len(r.hooks) > 0 THEN "ok" ELSE "ok0", r.sid)
     ELSE IF D10 \in sdev THEN Verdict(r.rid, "C06", "dev", {D10})
     ELSE IF D6 \in sdev \/ D7b \in sdev \/ D21 \in sdev \/ D25 \in sdev \/ D22shape THEN Verdict(r.rid, "C06", "na", "D6 / D7b / D21 / D25 / D22, see C01")
     ELSE Verdict(r.rid, "C06", "reject", <<r.sid, why>>)
  \* ---- C05 (dynamic half): the file's own prologue provides every configured hook
  /\ IF r.late THEN
       \* the file ran before the tracer installed its hooks: its prologue must have provided the hook object,
       \* and the code must behave the same once real hooks are put into that object
       IF r.outout.k # "syntax" /\ ~r.late_found THEN Verdict(r.rid, "C05", "reject", "no hook object after loading the file: later hook installation has nothing to extend")
       ELSE IF why # "" /\ ~(D6 \in sdev) /\ ~(D7b \in sdev) /\ ~(D21 \in sdev) /\ ~(D25 \in sdev) /\ ~D22shape THEN Verdict(r.rid, "C05", "reject", <<"hooks installed after load", why>>)
       ELSE Verdict(r.rid, "C05", IF Len(r.hooks) > 0 THEN "ok" ELSE "ok0", "hooks installed after load")
     ELSE IF ~r.absent THEN
       \* a hook object that exists before the file is loaded must not be replaced by the file's prologue
       IF r.outout.k # "syntax" /\ ~r.ns_preserved THEN Verdict(r.rid, "C05", "reject", "the file replaced an existing hook object")
       ELSE Verdict(r.rid, "C05", IF Len(r.hooks) > 0 THEN "ok" ELSE "ok0", r.sid)
     ELSE IF ~r.ns_exists THEN Verdict(r.rid, "C05", "reject", "the prologue did not install the hook namespace")
     ELSE IF {r.ns_keys[i] : i \in 1..Len(r.ns_keys)} # {r.alldsts[i] : i \in 1..Len(r.alldsts)}
          THEN Verdict(r.rid, "C05", "reject", <<"prologue defines", r.ns_keys, "configured", r.alldsts>>)
     ELSE IF why # "" /\ ~callReadVsArgs /\ ~(D6 \in sdev) /\ ~(D7b \in sdev) /\ ~(D21 \in sdev) /\ ~(D25 \in sdev) /\ ~D22shape /\ ~(D10 \in sdev /\ r.reenter)
          THEN Verdict(r.rid, "C05", "reject", <<"with the file's own pass-through hooks", why>>)
     ELSE Verdict(r.rid, "C05", "ok", Len(r.ns_keys))

Init == l = 1
Next == l <= Len(Recs) /\ Judge(Recs[l]) /\ l' = l + 1
Spec == Init /\ [][Next]_l
AllConsumed == TLCGet("stats").diameter - 1 = Len(Recs)
=============================================================================
