SPECIFICATION Spec
CONSTANTS MaxActs = 3 Numbering = "ResetAtRoot" Storage = "PerActivation"
INVARIANT ReadSeesOwnWrite
CHECK_DEADLOCK FALSE
