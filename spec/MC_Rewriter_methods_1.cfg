SPECIFICATION Spec
CONSTANTS CfgName = "methods" Depth = 1
INVARIANT Inv
CHECK_DEADLOCK FALSE
