---------------------------- MODULE TraceSession ----------------------------
(***************************************************************************)
(* Trace validator for recorded call histories (property C16).  Events:    *)
(*   [ev: "reset"]                       a new driver process starts       *)
(*   [ev: "new", inst, cfg, prefix]      a rewriter instance is created    *)
(*   [ev: "rewrite", inst, code, file, result, fresh, prefix, rid]         *)
(* result / fresh are digests of (outcome, content, metrics, literal set)  *)
(* of the call in the history and of the same single call in a fresh       *)
(* process; for instances created without localVarPrefix the digest is     *)
(* taken modulo the instance's random prefix, which is logged separately.  *)
(***************************************************************************)
EXTENDS Naturals, Sequences, FiniteSets, TLC, Json, IOUtils

Recs == ndJsonDeserialize(IOEnv.TRACE)
VARIABLES l, cfgOf, prefixOf, memo
vars == <<l, cfgOf, prefixOf, memo>>

Verdict(rid, prop, v, detail) == PrintT("VERDICT|" \o rid \o "|" \o prop \o "|" \o v \o "|" \o ToString(detail))

Init == l = 1 /\ cfgOf = <<>> /\ prefixOf = <<>> /\ memo = <<>>

Reset(e) == e.ev = "reset" /\ cfgOf' = <<>> /\ prefixOf' = <<>> /\ UNCHANGED memo
New(e) == /\ e.ev = "new"
          /\ cfgOf' = (e.inst :> e.cfg) @@ cfgOf
          /\ prefixOf' = (e.inst :> e.prefix) @@ prefixOf
          /\ UNCHANGED memo
Rewrite(e) ==
  /\ e.ev = "rewrite"
  /\ LET key == <<cfgOf[e.inst], e.code, e.file>>
         seen == key \in DOMAIN memo
     IN /\ IF e.result # e.fresh
           THEN Verdict(e.rid, "C16", "reject", <<"result differs from the same call on a fresh rewriter", e.inst, e.code, e.file>>)
           ELSE IF seen /\ memo[key] # e.result
           THEN Verdict(e.rid, "C16", "reject", <<"result differs from an earlier identical call", e.inst, e.code, e.file>>)
           ELSE IF e.prefix # "" /\ prefixOf[e.inst] # "" /\ e.prefix # prefixOf[e.inst]
           THEN Verdict(e.rid, "C16", "reject", <<"temporary prefix of one rewriter changed between calls", prefixOf[e.inst], e.prefix>>)
           ELSE Verdict(e.rid, "C16", IF seen THEN "ok" ELSE "ok0", e.code)
        /\ memo' = (key :> e.result) @@ memo
        /\ prefixOf' = IF e.prefix # "" THEN (e.inst :> e.prefix) @@ prefixOf ELSE prefixOf
  /\ UNCHANGED cfgOf

Next == /\ l <= Len(Recs)
        /\ LET e == Recs[l] IN Reset(e) \/ New(e) \/ Rewrite(e)
        /\ l' = l + 1
Spec == Init /\ [][Next]_vars
AllConsumed == TLCGet("stats").diameter - 1 = Len(Recs)
=============================================================================
