------------------------------- MODULE Rewriter -------------------------------
(***************************************************************************)
(* L1 DESIGN MODEL of the Rust rewriter (src/visitor and src/transform),   *)
(* written to be bound to the code: one definition per critical section,   *)
(* same traversal order, same counter / context / status state.            *)
(*                                                                         *)
(*   Rewrite(program, cfg) = [outcome, out, status, count, debug]          *)
(*                                                                         *)
(* predicts, for an input tree and an effective configuration, the exact   *)
(* output tree (including the numbering of temporaries), the status and    *)
(* the telemetry.  MC_Rewriter enumerates every program of a bounded       *)
(* grammar, checks the listed properties on the PREDICTED output with the  *)
(* same deciders that judge real observations (Erase / Sites / Hygiene),   *)
(* and every enumerated program is replayed into the real rewriter, whose  *)
(* observed output must have the predicted shape (TraceRewriter).          *)
(*                                                                         *)
(* State threaded through one block pass (DefaultIdentProvider +           *)
(* TransformStatus):                                                       *)
(*   ctr    ident_counter            idents  declared temporaries, in order *)
(*   rp     a reserved-prefix identifier was walked (=> cancel)            *)
(*   status "nm" | "mod"             cnt, dbg   telemetry                  *)
(* The context flag (root / child) is the parameter `root`; leaving a      *)
(* pushing node (Bin, Assign, instrumentable Tpl, Call, OptChain) that was *)
(* entered in root context resets ctr to 0 (WithCtx::drop).                *)
(***************************************************************************)
EXTENDS JsAst

RN(t, v, a, c) == [t |-> t, v |-> v, a |-> a, c |-> c, id |-> 0]
L(items) == RN("_L", "", "", items)
Arg(e, spread) == RN("_arg", "", IF spread THEN "spread" ELSE "", <<e>>)
Id(name) == RN("Identifier", name, "", <<>>)
NameId(name) == RN("Identifier", name, "name", <<>>)
TempName(cfg, n) == "__datadog_" \o cfg.prefix \o "_" \o ToString(n)
TempId(cfg, n) == RN("Identifier", TempName(cfg, n), "tmp", <<>>)
Paren(e) == RN("ParenthesisExpression", "", "", <<e>>)
SeqE(es) == RN("SequenceExpression", "", "", <<L(es)>>)
AssignE(target, rhs) == RN("AssignmentExpression", "=", "", <<target, rhs>>)
MemberE(obj, name) == RN("MemberExpression", "", "", <<obj, NameId(name)>>)
CallE(callee, args) == RN("CallExpression", "", "", <<callee, L(args)>>)
HookCall(name, wrapped, args) == CallE(MemberE(Id("_ddiast"), name), <<Arg(wrapped, FALSE)>> \o args)

St0 == [ctr |-> 0, idents |-> <<>>, rp |-> FALSE, ev |-> <<>>]     \* ev: traversal events, as the cfg-guarded hooks record them
G0 == [status |-> "nm", cnt |-> 0, dbg |-> <<>>]

LitCallers == {"concat", "replace", "replaceAll", "padEnd", "padStart", "repeat"}
RECURSIVE FindM(_, _)
FindM(ms, name) == IF ms = <<>> THEN [src |-> "", dst |-> "", bare |-> FALSE]
                   ELSE IF Head(ms).src = name THEN Head(ms) ELSE FindM(Tail(ms), name)
HasM(cfg, name) == FindM(cfg.methods, name).src = name
DstM(cfg, name) == FindM(cfg.methods, name).dst

(* ---- telemetry (update_status): count only the operation that has just been instrumented ---- *)
Bump(g, cfg, tag) ==
  [status |-> "mod",
   cnt |-> IF cfg.verbosity = "OFF" THEN 0 ELSE g.cnt + 1,
   dbg |-> IF cfg.verbosity = "DEBUG" /\ tag # ""
           THEN (tag :> (IF tag \in DOMAIN g.dbg THEN g.dbg[tag] + 1 ELSE 1)) @@ g.dbg ELSE g.dbg]
MarkModified(g) == [g EXCEPT !.status = "mod"]

(* ---- ident provider ---- *)
Register(st, name) == IF \E i \in 1..Len(st.idents) : st.idents[i] = name THEN st
                      ELSE [st EXCEPT !.idents = Append(@, name)]

(* get_temporal_ident_used_in_assignation: literals are not hoisted *)
(* -> [e: expression to use in place, assign: <<>> or <<t = operand>>, st, hoisted] *)
HoistTemporal(e, spread, st, cfg) ==
  IF IsLit(e) THEN [e |-> e, assign |-> <<>>, st |-> st, hoisted |-> FALSE]
  ELSE LET n == st.ctr
           t == TempId(cfg, n)
           rhs == IF spread THEN RN("ArrayExpression", "", "", <<L(<<Arg(e, TRUE)>>)>>)
                  ELSE IF e.t = "SequenceExpression" THEN Paren(e) ELSE e
       IN [e |-> t, assign |-> <<AssignE(t, rhs)>>,
           st |-> Register([st EXCEPT !.ctr = n + 1, !.ev = Append(@, <<"next_ident", n, 0, "">>)], TempName(cfg, n)),
           hoisted |-> TRUE]

(* get_ident_used_in_assignation: hoist and hand the result to the hook *)
Hoist(e, spread, st, cfg) ==
  LET h == HoistTemporal(e, spread, st, cfg) IN
  [e |-> h.e, assign |-> h.assign, args |-> <<Arg(h.e, spread)>>, st |-> h.st]

(* ---- operand handler (replace_expressions_in_expr) ----                                      *)
(* keep = IdentMode::Keep ; expand = ExpandArrays::Yes ; -> [e, assign, args, st]               *)
RECURSIVE Operand(_, _, _, _, _, _), OperandElems(_, _, _, _, _, _)
Operand(e, keep, spread, expand, st, cfg) ==
  CASE IsLit(e) -> [e |-> e, assign |-> <<>>, args |-> <<Arg(e, spread)>>, st |-> st]
    [] e.t = "Identifier" ->
         IF keep THEN [e |-> e, assign |-> <<>>, args |-> <<Arg(e, spread)>>, st |-> st]
         ELSE Hoist(e, spread, st, cfg)
    [] e.t = "BinaryExpression" ->
         IF e.v # "+" THEN Hoist(e, spread, st, cfg)
         ELSE IF LitOnly(e) THEN [e |-> e, assign |-> <<>>, args |-> <<Arg(e, spread)>>, st |-> st]
         ELSE [e |-> e, assign |-> <<>>, args |-> <<>>, st |-> st]       \* left in place (D7b)
    [] e.t = "ArrayExpression" /\ expand ->
         LET r == OperandElems(e.c[1].c, 1, keep, st, cfg, [elems |-> <<>>, assign |-> <<>>, args |-> <<>>])
         IN [e |-> RN("ArrayExpression", "", "", <<L(r.elems)>>), assign |-> r.assign, args |-> r.args, st |-> r.st]
    [] OTHER -> Hoist(e, spread, st, cfg)

OperandElems(elems, i, keep, st, cfg, acc) ==
  IF i > Len(elems) THEN [elems |-> acc.elems, assign |-> acc.assign, args |-> acc.args, st |-> st]
  ELSE IF elems[i].t = "Null"       \* a hole: handed to the hook as undefined, left as a hole
       THEN OperandElems(elems, i + 1, keep, st, cfg,
              [elems |-> Append(acc.elems, elems[i]), assign |-> acc.assign, args |-> Append(acc.args, Arg(Id("undefined"), FALSE))])
       ELSE LET sp == IsSpreadArg(elems[i])
                r == Operand(elems[i].c[1], keep, sp, FALSE, st, cfg)
            IN OperandElems(elems, i + 1, keep, r.st, cfg,
                 [elems |-> Append(acc.elems, Arg(r.e, sp)), assign |-> acc.assign \o r.assign, args |-> acc.args \o r.args])

(* get_dd_paren_expr *)
DdParen(wrapped, args, assigns, name) ==
  IF assigns = <<>> THEN HookCall(name, wrapped, args)
  ELSE Paren(SeqE(assigns \o <<HookCall(name, wrapped, args)>>))

IsIdOrLit(e) == e.t = "Identifier" \/ IsLit(e)

(* ---- binary_add_transform: -> [mod, e, st] ---- *)
ToDdBinary(bin, st, cfg) ==
  LET l == Operand(bin.c[1], IsIdOrLit(bin.c[2]), FALSE, FALSE, st, cfg)
      r == Operand(bin.c[2], IsIdOrLit(l.e), FALSE, FALSE, l.st, cfg)
      args == l.args \o r.args
      must == \E i \in 1..Len(args) : ~LitOnly(args[i].c[1])
  IN IF must
     THEN [mod |-> TRUE, st |-> r.st,
           e |-> DdParen(RN("BinaryExpression", "+", "", <<l.e, r.e>>), args, l.assign \o r.assign, cfg.plus)]
     ELSE [mod |-> FALSE, st |-> r.st, e |-> bin]     \* temporaries taken by a not-modified attempt stay taken

(* ---- call_expr_transform helpers ---- *)
RECURSIVE CallArgs(_, _, _, _, _, _)
CallArgs(args, i, expand, st, cfg, acc) ==
  IF i > Len(args) THEN [args |-> acc.args, assign |-> acc.assign, hook |-> acc.hook, st |-> st]
  ELSE LET sp == IsSpreadArg(args[i])
           r == Operand(args[i].c[1], FALSE, sp, expand, st, cfg)
       IN CallArgs(args, i + 1, expand, r.st, cfg,
            [args |-> Append(acc.args, Arg(r.e, sp)), assign |-> acc.assign \o r.assign, hook |-> acc.hook \o r.args])
NoAcc == [args |-> <<>>, assign |-> <<>>, hook |-> <<>>]

(* X.y.z : identifiers and names only *)
RECURSIVE IsStaticPath(_)
IsStaticPath(m) == m.t = "MemberExpression" /\ m.c[2].t = "Identifier" /\
                   (m.c[1].t = "Identifier" \/ (m.c[1].t = "MemberExpression" /\ IsStaticPath(m.c[1])))

IsUndefNull(e) == IsIdentNamed(e, "undefined") \/ IsIdentNamed(e, "null")

(* member call  recv.m(args)  or prototype form  path.m.call|apply(this, args)                 *)
(* recv: receiver / this expression; path: Null node for a member call, else the callee path   *)
MemberCall(recv, m, path, viaName, args, st, cfg) ==
  LET hasPath == path.t # "Null"
      first == IF hasPath /\ ~IsStaticPath(path) THEN Hoist(path, FALSE, st, cfg)
               ELSE [e |-> path, assign |-> <<>>, args |-> <<>>, st |-> st]
      tr == HoistTemporal(recv, FALSE, first.st, cfg)
      tc == IF hasPath /\ ~IsStaticPath(path) THEN [e |-> first.e, assign |-> <<>>, args |-> <<>>, st |-> tr.st]
            ELSE IF hasPath THEN Hoist(path, FALSE, tr.st, cfg)
            ELSE Hoist(MemberE(tr.e, m), FALSE, tr.st, cfg)
      \* apply(this, argsArray, surplus..): the surplus is extracted in place but is no hook operand
      ca == IF viaName = "apply" /\ Len(args) > 1
            THEN LET a1 == CallArgs(SubSeq(args, 1, 1), 1, TRUE, tc.st, cfg, NoAcc)
                     a2 == CallArgs(SubSeq(args, 2, Len(args)), 1, TRUE, a1.st, cfg, NoAcc)
                 IN [args |-> a1.args \o a2.args, assign |-> a1.assign \o a2.assign, hook |-> a1.hook, st |-> a2.st]
            ELSE CallArgs(args, 1, viaName = "apply", tc.st, cfg, NoAcc)
      call == CallE(MemberE(tc.e, viaName), <<Arg(tr.e, FALSE)>> \o ca.args)
      hookArgs == (IF hasPath /\ ~IsStaticPath(path) THEN first.args ELSE tc.args) \o <<Arg(tr.e, FALSE)>> \o ca.hook
      assigns == first.assign \o tr.assign \o tc.assign \o ca.assign
  IN [mod |-> TRUE, st |-> ca.st, tag |-> m, e |-> DdParen(call, hookArgs, assigns, DstM(cfg, m))]

NotMod(e, st) == [mod |-> FALSE, st |-> st, tag |-> "", e |-> e]

ToDdCall(call, st, cfg) ==
  LET callee == call.c[1]
      args == call.c[2].c
  IN
  IF callee.t = "MemberExpression" /\ callee.c[2].t = "Identifier" THEN
    LET o == callee.c[1]
        m == callee.c[2].v
    IN CASE IsLit(o) -> IF m \in LitCallers /\ HasM(cfg, m) THEN MemberCall(o, m, RN("Null", "", "", <<>>), "call", args, st, cfg) ELSE NotMod(call, st)
         [] o.t \in {"Identifier", "CallExpression", "ParenthesisExpression", "ArrayExpression"} ->
              IF HasM(cfg, m) THEN MemberCall(o, m, RN("Null", "", "", <<>>), "call", args, st, cfg) ELSE NotMod(call, st)
         [] o.t = "MemberExpression" ->
              IF m \in {"call", "apply"} THEN
                \* prototype form: o is the path  P.....mm
                IF o.c[2].t # "Identifier" \/ args = <<>> THEN NotMod(call, st)
                ELSE LET mm == o.c[2].v
                         this == args[1]
                     IN IF IsSpreadArg(this) THEN
                          \* String.prototype.concat.call(...a, b): the callee path is hoisted, all arguments processed
                          IF ~HasM(cfg, mm) THEN NotMod(call, st)
                          ELSE LET tc == Hoist(o, FALSE, st, cfg)
                                   ca == CallArgs(args, 1, m = "apply", tc.st, cfg, NoAcc)
                               IN [mod |-> TRUE, st |-> ca.st, tag |-> mm,
                                   e |-> DdParen(CallE(MemberE(tc.e, m), ca.args), tc.args \o ca.hook, tc.assign \o ca.assign, DstM(cfg, mm))]
                        ELSE LET rest == SubSeq(args, 2, Len(args))
                                 thisE == this.c[1]
                                 invalidApply ==
                                   m = "apply" /\
                                   (IF Len(args) >= 2
                                    THEN IF args[2].c[1].t = "ArrayExpression"
                                         THEN LET el == args[2].c[1].c[1].c IN
                                              IsLit(thisE) /\ \A i \in 2..Len(el) :
                                                  el[i].t # "Null" /\ (IsLit(el[i].c[1]) \/ IsUndefNull(el[i].c[1]))
                                         ELSE ~IsSpreadArg(args[2])
                                    ELSE TRUE)
                                 allLit == \A i \in 1..Len(rest) : IsLit(rest[i].c[1]) \/ IsUndefNull(rest[i].c[1])
                             IN IF invalidApply THEN NotMod(call, st)
                                ELSE IF IsLit(thisE) /\ (mm \notin LitCallers \/ allLit) THEN NotMod(call, st)
                                ELSE IF ~HasM(cfg, mm) THEN NotMod(call, st)
                                ELSE MemberCall(thisE, mm, o, m, rest, st, cfg)
              ELSE IF o.c[2].t = "Identifier" /\ o.c[2].v = "prototype" THEN NotMod(call, st)
              ELSE IF HasM(cfg, m) THEN MemberCall(o, m, RN("Null", "", "", <<>>), "call", args, st, cfg) ELSE NotMod(call, st)
         [] OTHER -> NotMod(call, st)
  ELSE IF callee.t = "Identifier" THEN
    LET m == callee.v IN
    IF HasM(cfg, m) /\ FindM(cfg.methods, m).bare THEN
      LET ca == CallArgs(args, 1, FALSE, st, cfg, NoAcc) IN
      [mod |-> TRUE, st |-> ca.st, tag |-> m,
       e |-> DdParen(CallE(callee, ca.args), <<Arg(callee, FALSE), Arg(Id("undefined"), FALSE)>> \o ca.hook, ca.assign, DstM(cfg, m))]
    ELSE NotMod(call, st)
  ELSE NotMod(call, st)

(* ---- opt_chain_transform (OptChainVisitor, walking the chain's own links only) ----           *)
(* oc = [found, assign, guard ("" = none), st];  -> [e, oc]                                      *)
IsOpt(n) == n.t = "OptionalChainingExpression"
RECURSIVE OcVisit(_, _, _), OcLink(_, _, _)

IsProtoMember(o) == o.t = "MemberExpression" /\ o.c[2].t = "Identifier" /\ o.c[2].v = "prototype"
ObjIsProto(o) == IsProtoMember(o) \/ (IsOpt(o) /\ IsProtoMember(o.c[1]))

OcPattern(n, cfg) ==
  /\ IsOpt(n) /\ ~OptFlag(n) /\ n.c[1].t = "CallExpression"
  /\ IsOpt(n.c[1].c[1]) /\ n.c[1].c[1].c[1].t = "MemberExpression"
  /\ n.c[1].c[1].c[1].c[2].t = "Identifier" /\ HasM(cfg, n.c[1].c[1].c[1].c[2].v)
  /\ ~ObjIsProto(n.c[1].c[1].c[1].c[1])                       \* X?.prototype.m(..) is never hooked, so never lowered

OcVisit(n, oc, cfg) ==
  IF ~IsOpt(n) THEN [e |-> n, oc |-> oc]                       \* the head of the chain: not a link
  ELSE IF oc.found THEN
    LET base == n.c[1]
        opt == OptFlag(n)
    IN IF base.t = "CallExpression" THEN
         IF opt THEN
           IF base.c[1].t = "MemberExpression" THEN
             LET ho == Hoist(base.c[1].c[1], FALSE, oc.st, cfg) IN
             IF ho.assign = <<>> THEN [e |-> n, oc |-> oc]       \* literal object: left as it is, descent stops
             ELSE LET hm == Hoist(RN("MemberExpression", "", "", <<ho.e, base.c[1].c[2]>>), FALSE, ho.st, cfg)
                  IN [e |-> CallE(MemberE(hm.e, "call"), <<Arg(ho.e, FALSE)>> \o base.c[2].c),
                      oc |-> [found |-> TRUE, assign |-> oc.assign \o ho.assign \o hm.assign, guard |-> hm.e.v, st |-> hm.st]]
           ELSE LET hc == Hoist(base.c[1], FALSE, oc.st, cfg) IN
                IF hc.assign = <<>> THEN [e |-> n, oc |-> oc]
                ELSE [e |-> CallE(hc.e, base.c[2].c),
                      oc |-> [found |-> TRUE, assign |-> oc.assign \o hc.assign, guard |-> hc.e.v, st |-> hc.st]]
         ELSE OcLink(CallE(base.c[1], base.c[2].c), oc, cfg)
       ELSE \* member link
         IF opt THEN
           LET ho == Hoist(base.c[1], FALSE, oc.st, cfg) IN
           IF ho.assign = <<>> THEN [e |-> n, oc |-> oc]
           ELSE [e |-> RN("MemberExpression", "", "", <<ho.e, base.c[2]>>),
                 oc |-> [found |-> TRUE, assign |-> oc.assign \o ho.assign, guard |-> ho.e.v, st |-> ho.st]]
         ELSE OcLink(RN("MemberExpression", "", "", <<base.c[1], base.c[2]>>), oc, cfg)
  ELSE IF OcPattern(n, cfg) THEN OcVisit(n, [oc EXCEPT !.found = TRUE], cfg)
  ELSE OcLink(n, oc, cfg)

(* follow the link below n: callee of a call, object of a member *)
OcLink(n, oc, cfg) ==
  CASE IsOpt(n) ->
         LET b == n.c[1]
             r == OcVisit(b.c[1], oc, cfg)
         IN [e |-> [n EXCEPT !.c = <<[b EXCEPT !.c = <<r.e>> \o Tail(b.c)]>>], oc |-> r.oc]
    [] n.t \in {"CallExpression", "MemberExpression"} ->
         LET r == OcVisit(n.c[1], oc, cfg) IN [e |-> [n EXCEPT !.c = <<r.e>> \o Tail(n.c)], oc |-> r.oc]
    [] OTHER -> [e |-> n, oc |-> oc]

ToDdOptChain(n, st, cfg) ==
  LET r == OcVisit(n, [found |-> FALSE, assign |-> <<>>, guard |-> "", st |-> st], cfg) IN
  IF r.oc.assign = <<>> \/ r.oc.guard = "" THEN [mod |-> FALSE, st |-> r.oc.st, e |-> r.e]
  ELSE [mod |-> TRUE, st |-> r.oc.st,
        e |-> Paren(SeqE(r.oc.assign \o
               << RN("ConditionalExpression", "", "",
                     << RN("BinaryExpression", "==", "", <<RN("Identifier", r.oc.guard, "tmp", <<>>), RN("NullLiteral", "", "", <<>>)>>),
                        Id("undefined"), r.e >>) >>))]

-----------------------------------------------------------------------------
(* ---- the operation visitor (OperationTransformVisitor) ----                                   *)
(* Visit(n, root, S) with S = [st (block pass state), g (global status / telemetry)]             *)
(* -> [n, S]                                                                                     *)
RECURSIVE Visit(_, _, _, _), VisitKids(_, _, _, _), VisitSeq(_, _, _, _, _, _)

LeavePush(S, root) == IF root THEN [S EXCEPT !.st.ctr = 0, !.st.ev = Append(@, <<"reset_counter", S.st.ctr, 0, "">>)] ELSE S
(* update_status(status, tag) is entered: <<"update_status", modified?, count before, tag>> *)
Status(st, g, mod, tag) == [st EXCEPT !.ev = Append(@, <<"update_status", IF mod THEN 1 ELSE 0, g.cnt, tag>>)]

VisitSeq(kids, i, root, S, cfg, acc) ==
  IF i > Len(kids) THEN [kids |-> acc, S |-> S]
  ELSE LET r == Visit(kids[i], root, S, cfg) IN VisitSeq(kids, i + 1, root, r.S, cfg, Append(acc, r.n))

VisitKids(n, root, S, cfg) ==
  LET r == VisitSeq(n.c, 1, root, S, cfg, <<>>) IN [n |-> [n EXCEPT !.c = r.kids], S |-> r.S]

IsRpIdent(n) == n.t = "Identifier" /\ (n.a = "rp")

Visit(n, root, S, cfg) ==
  CASE n.t = "BinaryExpression" /\ cfg.plus # "" ->
         LET k == VisitKids(n, FALSE, S, cfg) IN
         IF n.v = "+"
         THEN LET r == ToDdBinary(k.n, k.S.st, cfg) IN
              [n |-> r.e, S |-> LeavePush([st |-> Status(r.st, k.S.g, r.mod, "+"), g |-> IF r.mod THEN Bump(k.S.g, cfg, "+") ELSE k.S.g], root)]
         ELSE [n |-> k.n, S |-> LeavePush(k.S, root)]
    [] n.t = "AssignmentExpression" /\ cfg.plus # "" ->
         LET k == VisitKids(n, FALSE, S, cfg) IN
         IF n.v = "+="
         THEN LET right == IF k.n.c[2].t = "BinaryExpression" THEN Paren(k.n.c[2]) ELSE k.n.c[2]
                  r == ToDdBinary(RN("BinaryExpression", "+", "", <<k.n.c[1], right>>), k.S.st, cfg)
              IN IF r.mod
                 THEN [n |-> RN("AssignmentExpression", "=", "", <<k.n.c[1], r.e>>),
                       S |-> LeavePush([st |-> Status(r.st, k.S.g, TRUE, "+="), g |-> Bump(k.S.g, cfg, "+=")], root)]
                 ELSE [n |-> k.n, S |-> LeavePush([st |-> Status(r.st, k.S.g, FALSE, "+="), g |-> k.S.g], root)]
         ELSE [n |-> k.n, S |-> LeavePush(k.S, root)]
    [] n.t = "TemplateLiteral" /\ cfg.tpl # "" ->
         IF Len(n.c[1].c) >= 1 /\ \A i \in 1..Len(n.c[1].c) : ~IsLit(n.c[1].c[i])
         THEN LET k == VisitKids(n, FALSE, S, cfg)
                  ca == CallArgs([i \in 1..Len(k.n.c[1].c) |-> Arg(k.n.c[1].c[i], FALSE)], 1, FALSE, k.S.st, cfg, NoAcc)
                  tpl == [k.n EXCEPT !.c = <<L([i \in 1..Len(ca.args) |-> ca.args[i].c[1]]), k.n.c[2]>>]
              IN [n |-> DdParen(tpl, ca.hook, ca.assign, cfg.tpl),
                  S |-> LeavePush([st |-> Status(ca.st, k.S.g, TRUE, "Tpl"), g |-> Bump(k.S.g, cfg, "Tpl")], root)]
         ELSE [n |-> n, S |-> S]               \* not instrumentable: not even traversed
    [] n.t = "CallExpression" ->
         LET k == VisitKids(n, FALSE, S, cfg) IN
         IF k.n.c[1].t \in {"Super", "Import"} THEN [n |-> k.n, S |-> LeavePush(k.S, root)]
         ELSE LET r == ToDdCall(k.n, k.S.st, cfg) IN
              [n |-> r.e, S |-> LeavePush([st |-> IF r.mod THEN Status(r.st, k.S.g, TRUE, r.tag) ELSE r.st,
                                           g |-> IF r.mod THEN Bump(k.S.g, cfg, r.tag) ELSE k.S.g], root)]
    [] n.t = "OptionalChainingExpression" ->
         LET r == ToDdOptChain(n, S.st, cfg)
             S1 == [st |-> r.st, g |-> IF r.mod THEN MarkModified(S.g) ELSE S.g]
         IN IF IsOpt(r.e)
            THEN \* still a chain: its base is an OptCall / member, not an expression of its own --
                 \* only the base's children are offered to the visitor
                 LET kb == VisitKids(r.e.c[1], FALSE, S1, cfg) IN
                 [n |-> [r.e EXCEPT !.c = <<kb.n>>], S |-> LeavePush(kb.S, root)]
            ELSE LET k == VisitKids(r.e, FALSE, S1, cfg) IN [n |-> k.n, S |-> LeavePush(k.S, root)]
    [] n.t = "UnaryExpression" -> IF n.v = "delete" THEN [n |-> n, S |-> S] ELSE VisitKids(n, root, S, cfg)
    [] n.t = "ArrowFunctionExpression" ->
         IF n.c[2].t # "BlockStatement"
         THEN [n |-> [n EXCEPT !.c = <<n.c[1], RN("BlockStatement", "", "", <<L(<<RN("ReturnStatement", "", "", <<n.c[2]>>)>>)>>)>>], S |-> S]
         ELSE [n |-> n, S |-> S]
    [] n.t = "BlockStatement" -> [n |-> n, S |-> S]                  \* nested blocks get a pass of their own
    [] n.t = "TaggedTemplateExpression" ->
         \* the template of a tagged template is not an expression: its substitutions are visited
         LET tg == Visit(n.c[1], root, S, cfg)
             tp == VisitKids(n.c[2], root, tg.S, cfg)
         IN [n |-> [n EXCEPT !.c = <<tg.n, tp.n>>], S |-> tp.S]
    [] n.t = "Identifier" ->
         [n |-> n, S |-> IF IsRpIdent(n) THEN [S EXCEPT !.st.rp = TRUE] ELSE S]
    [] OTHER -> VisitKids(n, root, S, cfg)

-----------------------------------------------------------------------------
(* ---- the block pass (BlockTransformVisitor) ---- *)
LetDecl(cfg, names) ==
  RN("VariableDeclaration", "let", "",
     <<L([i \in 1..Len(names) |->
            RN("VariableDeclarator", "", "", <<RN("Identifier", names[i], "tmp", <<>>), RN("Null", "", "", <<>>)>>)])>>)

InsertAt(s, i, x) == SubSeq(s, 1, i) \o <<x>> \o SubSeq(s, i + 1, Len(s))

(* G = [g, cancelled];  -> [n, G] *)
RECURSIVE BlockPass(_, _, _), BlockPassSeq(_, _, _, _, _)
BlockPassSeq(kids, i, G, cfg, acc) ==
  IF i > Len(kids) THEN [kids |-> acc, G |-> G]
  ELSE LET r == BlockPass(kids[i], G, cfg) IN BlockPassSeq(kids, i + 1, r.G, cfg, Append(acc, r.n))

BlockPass(n, G, cfg) ==
  IF G.cancelled THEN [n |-> n, G |-> G]
  ELSE IF n.t = "BlockStatement" THEN
    LET v == VisitSeq(n.c[1].c, 1, TRUE, [st |-> St0, g |-> G.g], cfg, <<>>)
        evs == G.ev \o << <<"block_enter", Len(n.c[1].c), 0, "">> >> \o v.S.st.ev
    IN
    IF v.S.st.rp THEN [n |-> n, G |-> [g |-> v.S.g, cancelled |-> TRUE,
                                       ev |-> Append(evs, <<"block_cancel", Len(v.S.st.idents), 0, "">>)]]
    ELSE LET stmts == IF v.S.st.idents = <<>> THEN v.kids
                      ELSE InsertAt(v.kids, DirectivePrefixLen(v.kids), LetDecl(cfg, v.S.st.idents))
             inner == BlockPassSeq(stmts, 1, [g |-> v.S.g, cancelled |-> FALSE,
                                              ev |-> Append(evs, <<"block_leave", Len(v.S.st.idents), 0, "">>)], cfg, <<>>)
         IN [n |-> [n EXCEPT !.c = <<[n.c[1] EXCEPT !.c = inner.kids]>>], G |-> inner.G]
  ELSE LET r == BlockPassSeq(n.c, 1, G, cfg, <<>>) IN [n |-> [n EXCEPT !.c = r.kids], G |-> r.G]

PrologueMarker == RN("_Prologue", "", "", <<>>)

Rewrite(prog, cfg) ==
  LET r == BlockPass(prog, [g |-> G0, cancelled |-> FALSE, ev |-> <<>>], cfg) IN
  IF r.G.cancelled THEN [outcome |-> "cancelled", out |-> prog, status |-> "cancelled", count |-> 0, dbg |-> <<>>, ev |-> r.G.ev]
  ELSE IF r.G.g.status = "mod"
  THEN LET body == r.n.c[1].c
           withPrologue == InsertAt(body, DirectivePrefixLen(body), PrologueMarker)
       IN [outcome |-> "ok", status |-> "modified", count |-> r.G.g.cnt, dbg |-> r.G.g.dbg,
           ev |-> Append(r.G.ev, <<"prologue", 2, 0, "">>),
           out |-> [r.n EXCEPT !.c = <<[r.n.c[1] EXCEPT !.c = withPrologue]>> \o Tail(r.n.c)]]
  ELSE [outcome |-> "ok", out |-> prog, status |-> "notmodified", count |-> 0, dbg |-> <<>>, ev |-> r.G.ev]

-----------------------------------------------------------------------------
(* Shape of a tree for conformance: no ids / positions, parentheses, empty statements and the    *)
(* file prologue (an `if (typeof _ddiast === 'undefined') ..` statement / the model's marker)     *)
(* are transparent; everything else, temporaries' names included, counts.                         *)
RECURSIVE Shape(_)
IsPrologueStmt(s) ==
  \/ s.t = "_Prologue" \/ s.t = "EmptyStatement"
  \/ /\ s.t = "IfStatement" /\ StripParen(s.c[1]).t = "BinaryExpression"
     /\ StripParen(StripParen(s.c[1]).c[1]).t = "UnaryExpression"
     /\ IsIdentNamed(StripParen(StripParen(StripParen(s.c[1]).c[1]).c[1]), "_ddiast")
Shape(n) ==
  IF n.t = "ParenthesisExpression" THEN Shape(n.c[1])
  ELSE IF n.t = "OptionalChainingExpression" /\ n.a = "optional=false"
          /\ n.c[1].c[1].t # "ParenthesisExpression"
          /\ Shape(n.c[1].c[1]).t # "OptionalChainingExpression"
  THEN \* a non-optional link whose object is no longer a chain prints (and re-parses) as a plain member / call
       Shape(n.c[1])
  ELSE IF n.t = "OptionalChainingExpression" /\ n.a = "optional=false"
          /\ n.c[1].c[1].t = "ParenthesisExpression"
  THEN \* (x).y : parentheses end a chain
       Shape(n.c[1])
  ELSE LET kids == IF n.t = "_L" THEN SelectSeq(n.c, LAMBDA s : ~IsPrologueStmt(s)) ELSE n.c IN
       [t |-> n.t, v |-> n.v, a |-> IF n.t = "Identifier" THEN "" ELSE n.a, c |-> [i \in 1..Len(kids) |-> Shape(kids[i])]]

RECURSIVE ShapeDiff(_, _)
ShapeDiff(x, y) ==
  IF x.t # y.t \/ x.v # y.v \/ x.a # y.a \/ Len(x.c) # Len(y.c)
  THEN "predicted " \o x.t \o " " \o x.v \o " [" \o ToString(Len(x.c)) \o "] observed " \o y.t \o " " \o y.v \o " [" \o ToString(Len(y.c)) \o "]"
  ELSE LET bad == {i \in 1..Len(x.c) : x.c[i] # y.c[i]} IN
       IF bad = {} THEN "" ELSE ShapeDiff(x.c[CHOOSE i \in bad : \A j \in bad : i <= j], y.c[CHOOSE i \in bad : \A j \in bad : i <= j])
=============================================================================
