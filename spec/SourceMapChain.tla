--------------------------- MODULE SourceMapChain ---------------------------
(***************************************************************************)
(* Source maps as data, the lookup both consumers implement, the chaining  *)
(* algorithm of the rewriter (rewriter.rs chain_source_maps) and the       *)
(* property it must satisfy (C10, first sentence).                         *)
(*                                                                         *)
(* A map is a sequence of tokens sorted by generated position; a token is  *)
(*   [gl, gc : generated line / column,  mapped : BOOLEAN,                 *)
(*    src : source name, sl, sc : original line / column, name : STRING]   *)
(* (mapped = FALSE is a 1-field segment: "this position maps to nothing"). *)
(* A token may carry rng = TRUE (the map's "rangeMappings" field): it maps *)
(* the whole run of columns up to the next token, column by column -- a    *)
(* lookup at column c on the token's line yields sc + (c - gc).            *)
(* Lookup(M, l, c) = the token with the greatest generated position        *)
(* <= (l, c) -- the semantics of sourcemap::SourceMap::lookup_token and of *)
(* the package's node_source_map findEntry (global, not per line).         *)
(***************************************************************************)
EXTENDS Naturals, Sequences, FiniteSets, TLC

PosLE(l1, c1, l2, c2) == l1 < l2 \/ (l1 = l2 /\ c1 <= c2)

NoToken == [found |-> FALSE]

(* greatest lower bound; M sorted by (gl, gc): binary search for the last token <= (l, c) *)
RECURSIVE GlbIndex(_, _, _, _, _)
GlbIndex(M, l, c, lo, hi) ==       \* invariant: tokens 1..lo-1 are <= (l,c), tokens hi+1.. are > (l,c)
  IF lo > hi THEN lo - 1
  ELSE LET mid == (lo + hi) \div 2 IN
       IF PosLE(M[mid].gl, M[mid].gc, l, c) THEN GlbIndex(M, l, c, mid + 1, hi)
       ELSE GlbIndex(M, l, c, lo, mid - 1)
Lookup(M, l, c) ==
  LET i == GlbIndex(M, l, c, 1, Len(M)) IN
  IF i = 0 THEN NoToken ELSE [found |-> TRUE, tok |-> M[i]]

IsRange(t) == "rng" \in DOMAIN t /\ t.rng
(* original column a lookup at (l, c) that found token t reports *)
ColAt(t, l, c) == IF IsRange(t) /\ t.gl = l THEN t.sc + (c - t.gc) ELSE t.sc

(* what a consumer sees at a generated position: nothing, or (src, line, col, name) *)
Resolve(M, l, c) ==
  LET r == Lookup(M, l, c) IN
  IF ~r.found \/ ~r.tok.mapped THEN <<"unmapped">>
  ELSE <<r.tok.src, r.tok.sl, ColAt(r.tok, l, c), r.tok.name>>

(* the exact composition: look g up in the rewrite map R, then its image in the original map O *)
Composed(R, O, l, c) ==
  LET r == Lookup(R, l, c) IN
  IF ~r.found \/ ~r.tok.mapped THEN <<"unmapped">>
  ELSE Resolve(O, r.tok.sl, r.tok.sc)

(* --- the algorithm as written in the code: one output token per rewrite token that has an   *)
(* image in O; tokens without image are DROPPED (named deviation D17) or, in the repaired      *)
(* algorithm, kept as unmapped tokens                                                          *)
RECURSIVE ChainFrom(_, _, _, _)
ChainFrom(R, O, i, keepUnmapped) ==
  IF i > Len(R) THEN <<>>
  ELSE LET t == R[i]
           img == IF t.mapped THEN Lookup(O, t.sl, t.sc) ELSE NoToken
       IN (IF img.found
           THEN << [gl |-> t.gl, gc |-> t.gc, mapped |-> img.tok.mapped, src |-> img.tok.src,
                    sl |-> img.tok.sl, sc |-> ColAt(img.tok, t.sl, t.sc), name |-> img.tok.name] >>
           ELSE IF keepUnmapped
           THEN << [gl |-> t.gl, gc |-> t.gc, mapped |-> FALSE, src |-> "", sl |-> 0, sc |-> 0, name |-> ""] >>
           ELSE <<>>)
          \o ChainFrom(R, O, i + 1, keepUnmapped)
ChainAlgo(R, O, keepUnmapped) == ChainFrom(R, O, 1, keepUnmapped)

(* C10: at the start of every rewrite token the chained map resolves like the composition *)
(* ... and one column further (a position strictly inside the token's run, unless the next token starts there): *)
(* a chained token must not stretch its image over its run the way a range token does                           *)
ExactAt(C, R, O, i) == /\ Resolve(C, R[i].gl, R[i].gc) = Composed(R, O, R[i].gl, R[i].gc)
                       /\ Resolve(C, R[i].gl, R[i].gc + 1) = Composed(R, O, R[i].gl, R[i].gc + 1)
ExactComposition(C, R, O) == \A i \in 1..Len(R) : ExactAt(C, R, O, i)
FirstInexact(C, R, O) ==
  IF ExactComposition(C, R, O) THEN 0
  ELSE CHOOSE i \in 1..Len(R) : ~ExactAt(C, R, O, i) /\ \A j \in 1..(i - 1) : ExactAt(C, R, O, j)
=============================================================================
