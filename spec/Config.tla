------------------------------- MODULE Config -------------------------------
(***************************************************************************)
(* Property C05, configuration clause: the documented defaulting of the    *)
(* rewriter configuration.  Effective(raw) is what `new Rewriter(raw)`     *)
(* must work with; the observed effective configuration comes from the     *)
(* real RewriterConfig -> Config conversion through the cfg-guarded        *)
(* accessor.  raw option values are "omitted" | "true" | "false" (booleans) *)
(* or [given, value] (strings); verbosity arrives upper-cased (lexical).   *)
(***************************************************************************)
EXTENDS Naturals, Sequences, FiniteSets, TLC

Verbosities == {"OFF", "MANDATORY", "INFORMATION", "DEBUG"}

EffMethod(m) == [src |-> m.src, dst |-> IF m.dst_given THEN m.dst ELSE m.src,
                 operator |-> m.operator = "true", bare |-> m.awc = "true"]

RECURSIVE FirstOp(_, _)
FirstOp(ms, name) ==
  IF ms = <<>> THEN ""
  ELSE IF Head(ms).operator /\ Head(ms).src = name THEN Head(ms).dst ELSE FirstOp(Tail(ms), name)

Effective(raw) ==
  LET ms == IF raw.methods_given THEN [i \in 1..Len(raw.methods) |-> EffMethod(raw.methods[i])] ELSE <<>> IN
  [ chain |-> raw.chain = "true",                    \* default: no chaining
    comments |-> raw.comments = "true",              \* default: no comments
    literals |-> raw.literals # "false",             \* default: literals on
    verbosity |-> IF raw.verbosity_given /\ raw.verbosity_upper \in Verbosities THEN raw.verbosity_upper ELSE "INFORMATION",
    plus |-> FirstOp(ms, "plusOperator"),
    tpl |-> FirstOp(ms, "tplOperator"),
    methods |-> SelectSeq([i \in 1..Len(ms) |-> [src |-> ms[i].src, dst |-> ms[i].dst, bare |-> ms[i].bare, op |-> ms[i].operator]],
                          LAMBDA m : ~m.op),
    alldsts |-> [i \in 1..Len(ms) |-> ms[i].dst] ]

(* "" when the observed effective configuration is the documented one *)
ConfigWhy(raw, cfg, prefixSixLower) ==
  LET e == Effective(raw) IN
  IF cfg.chain # e.chain THEN "chainSourceMap default / value"
  ELSE IF cfg.comments # e.comments THEN "comments default / value"
  ELSE IF cfg.literals # e.literals THEN "literals default / value"
  ELSE IF cfg.verbosity # e.verbosity THEN "telemetryVerbosity default / value: " \o cfg.verbosity
  ELSE IF cfg.plus # e.plus \/ cfg.tpl # e.tpl THEN "operator hook names"
  ELSE IF cfg.alldsts # e.alldsts THEN "replacement names (dst defaults to src)"
  ELSE IF [i \in 1..Len(cfg.methods) |-> [src |-> cfg.methods[i].src, dst |-> cfg.methods[i].dst, bare |-> cfg.methods[i].bare]]
          # [i \in 1..Len(e.methods) |-> [src |-> e.methods[i].src, dst |-> e.methods[i].dst, bare |-> e.methods[i].bare]]
       THEN "method table"
  ELSE IF raw.prefix_given /\ cfg.prefix # raw.prefix THEN "localVarPrefix not honoured"
  ELSE IF ~raw.prefix_given /\ ~prefixSixLower THEN "default prefix is not six lowercase letters"
  ELSE ""
=============================================================================
