SPECIFICATION Spec
CONSTANTS Insts = {"A", "B"} Files = {"f1", "f2"} Codes = {"mod", "notmod", "syntax", "refused", "modmap"} MaxLen = 4
INVARIANT Emit
CHECK_DEADLOCK FALSE
