SPECIFICATION Spec
CONSTANTS CfgName = "plusonly" Depth = 2
INVARIANT Inv
CHECK_DEADLOCK FALSE
