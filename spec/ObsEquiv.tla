------------------------------ MODULE ObsEquiv ------------------------------
(***************************************************************************)
(* Property C01: observational equivalence of two recorded runs (input     *)
(* program vs. rewritten output, same scenario, pass-through hooks), up to *)
(* exactly the differences the property permits:                           *)
(*   - exception class only (the membrane records the constructor name);   *)
(*   - injected names are local `let`s and produce no events;              *)
(*   - the implicit ToString of a template substitution (a "prim" event    *)
(*     with hint "string") may happen LATER than in the input (past any    *)
(*     other event), never earlier.                                        *)
(*   - reading a static X.prototype.m path before or after the this-       *)
(*     argument of .call/.apply: static paths are bound to real intrinsics *)
(*     (String.prototype.m, K.prototype.m), whose reads are not events;    *)
(*     programs with any other callee path are not compared dynamically.   *)
(* (Reads along a static X.prototype.m path are not events here: static    *)
(* paths are bound to real intrinsics / the real class K by the membrane.) *)
(* An event is [e, x, k, v, a]: kind, object/function id, key or hint,     *)
(* value or this, arguments.                                               *)
(***************************************************************************)
EXTENDS Naturals, Sequences, FiniteSets, TLC

IsPrimS(ev) == ev.e = "prim" /\ ev.k = "string"

Strip(log) == SelectSeq(log, LAMBDA ev : ~IsPrimS(ev))
Prims(log) == SelectSeq(log, IsPrimS)

(* the string coercions of a log as a set of <<object id, occurrence number, number of other    *)
(* events that precede it>>                                                                     *)
RECURSIVE PrimTableFrom(_, _, _, _)
PrimTableFrom(log, i, seen, cnt) ==
  IF i > Len(log) THEN {}
  ELSE IF IsPrimS(log[i])
       THEN LET x == log[i].x
                n == IF x \in DOMAIN cnt THEN cnt[x] + 1 ELSE 1
            IN {<<x, n, seen>>} \cup PrimTableFrom(log, i + 1, seen, (x :> n) @@ cnt)
       ELSE PrimTableFrom(log, i + 1, seen + 1, cnt)
PrimTable(log) == PrimTableFrom(log, 1, 0, <<>>)
PrimIds(tab) == {<<p[1], p[2]>> : p \in tab}

(* index of the first difference of two sequences (0 = equal) *)
RECURSIVE FirstDiff(_, _, _)
FirstDiff(s, t, i) ==
  IF i > Len(s) /\ i > Len(t) THEN 0
  ELSE IF i > Len(s) \/ i > Len(t) THEN i
  ELSE IF s[i] # t[i] THEN i ELSE FirstDiff(s, t, i + 1)

IsPrefixOf(s, t) == Len(s) <= Len(t) /\ SubSeq(t, 1, Len(s)) = s

(* "" = equivalent; otherwise the first difference.                                             *)
(* Normal completion: all other effects identical and in order; the string coercions identical  *)
(* and in order, each not earlier than in the input.                                            *)
(* Abrupt completion: a coercion delayed past the throwing point never happens (the output's    *)
(* coercions are a prefix of the input's); and when it is a template coercion itself that       *)
(* throws, the output has by then already evaluated the later substitutions (the input's other  *)
(* effects are a prefix of the output's).                                                       *)
(* swallow: the program text can catch an exception itself (catch / finally / async): a         *)
(* coercion delayed past a substitution that throws never happens although the run completes   *)
(* normally; and when an injected coercion fault is caught inside the program the output has   *)
(* by then evaluated substitutions the input never reaches, so only the outcome is compared.   *)
Why(inLog, outLog, inOut, outOut, primFault, swallow) ==
  LET si == Strip(inLog) so == Strip(outLog)
      d == FirstDiff(si, so, 1)
      ti == PrimTable(inLog) to == PrimTable(outLog)
      \* primFault: the scenario makes a coercion throw
      coercionThrew == primFault /\ inOut.k = "throw" /\ Len(inLog) > 0 /\ IsPrimS(inLog[Len(inLog)])
      \* every coercion the output performs is one the input performs, and it is not earlier
      notEarlier == \A p \in to : \E q \in ti : q[1] = p[1] /\ q[2] = p[2] /\ p[3] >= q[3]
  IN IF inOut # outOut THEN "outcome differs: input " \o ToString(inOut) \o " output " \o ToString(outOut)
     ELSE IF coercionThrew THEN
       \* the fault is injected into the FIRST coercion of an identity: in the output that may be a
       \* coercion inside a later substitution (evaluated before the delayed template coercion), so
       \* the coercions performed by then are not comparable; the other effects are
       IF ~IsPrefixOf(si, so) THEN "effects before the throwing coercion differ"
       ELSE ""
     ELSE IF primFault /\ swallow THEN ""
     ELSE IF d # 0 THEN
       "effect " \o ToString(d) \o " differs: input " \o
         (IF d <= Len(si) THEN ToString(si[d]) ELSE "<end>") \o " output " \o
         (IF d <= Len(so) THEN ToString(so[d]) ELSE "<end>")
     ELSE IF inOut.k # "throw" /\ ~swallow /\ PrimIds(ti) # PrimIds(to) THEN "template coercions differ"
     ELSE IF ~notEarlier THEN "a template substitution is coerced earlier than in the input, or coerced without counterpart"
     ELSE ""

(* same events, any order *)
CountIn(s, x) == Cardinality({i \in 1..Len(s) : s[i] = x})
BagEq(s, t) == Len(s) = Len(t) /\ \A i \in 1..Len(s) : CountIn(s, s[i]) = CountIn(t, s[i])

(* is out obtained from in by inserting extra events only (same outcome)?  used to recognise   *)
(* the repeated evaluation of a compound-assignment target (named deviation D6)                 *)
RECURSIVE IsSubseq(_, _, _, _)
IsSubseq(s, t, i, j) ==
  IF i > Len(s) THEN TRUE
  ELSE IF j > Len(t) THEN FALSE
  ELSE IF s[i] = t[j] THEN IsSubseq(s, t, i + 1, j + 1) ELSE IsSubseq(s, t, i, j + 1)

OnlyExtraReads(inLog, outLog) ==
  /\ IsSubseq(Strip(inLog), Strip(outLog), 1, 1)
  /\ Len(Strip(outLog)) > Len(Strip(inLog))

-----------------------------------------------------------------------------
(* C03, dynamic half: the hook stream of the output run.  A hook event is                      *)
(*   [name, configured, at, args, result, check]                                               *)
(* check = "ok" / "mismatch" (self-check recomputed by the membrane where that is pure),       *)
(* "log" (method hook on a membrane function: matched here against its call event), "skip".    *)
RECURSIVE LastCallOf(_, _, _)
LastCallOf(log, fid, i) ==
  IF i = 0 THEN 0
  ELSE IF log[i].e = "call" /\ log[i].x = fid THEN i ELSE LastCallOf(log, fid, i - 1)

HookWhyDyn(h, log) ==
  IF ~h.configured THEN "hook namespace dereferenced with the unconfigured name " \o h.name
  ELSE IF h.check = "mismatch" THEN "first hook argument is not the result of the operation on the other arguments (" \o h.name \o ")"
  ELSE IF h.check = "log" THEN
    IF Len(h.args) < 3 THEN "method hook with fewer than three arguments"
    ELSE LET at == IF h.at <= Len(log) THEN h.at ELSE Len(log)
             i == LastCallOf(log, h.fid, at)
         IN IF i = 0 THEN "no call event for the function handed to the hook " \o h.name
            \* under re-entry the most recent call of the function belongs to an inner activation (whose hook
            \* has already fired): the hook's own call is an earlier one
            ELSE IF \E j \in 1..at : log[j].e = "call" /\ log[j].x = h.fid /\ log[j].v = h.args[3]
                                     /\ log[j].a = SubSeq(h.args, 4, Len(h.args)) THEN ""
            ELSE IF log[i].v # h.args[3] THEN "receiver handed to the hook differs from the receiver of the call"
            ELSE IF log[i].a # SubSeq(h.args, 4, Len(h.args)) THEN "arguments handed to the hook differ from the arguments of the call"
            ELSE ""
  ELSE ""
=============================================================================
