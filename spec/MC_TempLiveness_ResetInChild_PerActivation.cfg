SPECIFICATION Spec
CONSTANTS MaxActs = 3 Numbering = "ResetInChild" Storage = "PerActivation"
INVARIANT ReadSeesOwnWrite
CHECK_DEADLOCK FALSE
