---------------------------- MODULE EffectOrder ----------------------------
(***************************************************************************)
(* Property C01, static half: the ORDER OF EFFECTS of a program, computed  *)
(* symbolically from its syntax tree, is the same for the input and for    *)
(* the rewritten output.                                                   *)
(*                                                                         *)
(* Ev(tree) evaluates a tree abstractly, left to right as ECMAScript does, *)
(* into a sequence of events over symbolic values:                         *)
(*   get / set / delete / call / new / binop / unary / tpl / assign / ...  *)
(* Values are terms: literals, variable reads stamped with the number of   *)
(* events that precede them (any event may run user code that reassigns a  *)
(* variable, so a read that moves across an event is a different value),   *)
(* results of earlier events (by event number), closures (with the events  *)
(* of their bodies), static paths X.y.z (reads along them are not events;  *)
(* the property permits evaluating them before or after a this-argument).  *)
(* Conditional evaluation (?:, &&, ||, ??, if, loops, ...) nests the       *)
(* events of each arm; an optional chain brackets the part it guards.      *)
(*                                                                         *)
(* The instrumentation is transparent by construction, and only in the     *)
(* ways the rewriter is supposed to be transparent:                        *)
(*   - an injected temporary holds the value assigned to it (no event);    *)
(*   - a hook call has the value and the events of its first argument      *)
(*     (the other arguments are C03's business);                           *)
(*   - F.call(t, a..) / F.apply(t, [a..]) invoke F with receiver t - on    *)
(*     BOTH sides, so the re-dispatch t1.call(t0, ..) of a method call     *)
(*     equals the call it replaces;                                        *)
(*   - (t = B, t == null ? undefined : REST) is the optional-chain guard;  *)
(*   - a spread argument ...E builds its list where it stands, t = [...E]  *)
(*     followed by ...t builds it where t is assigned: one iteration of E; *)
(*   - injected declarations, the file prologue, empty statements and the  *)
(*     block an expression-bodied arrow was given are skipped.             *)
(* Anything else the output does differently shows up as a different event *)
(* sequence: an operand evaluated twice or not at all, two operands        *)
(* swapped, a variable read moved across a call, a lost receiver, a guard  *)
(* that covers more or less than the chain it replaces.                    *)
(***************************************************************************)
EXTENDS Sites

NoV == [k |-> "none"]
LitV(n) == [k |-> "lit", t |-> n.t, v |-> n.v]
VarV(name, at) == [k |-> "var", v |-> name, at |-> at]
ResV(at) == [k |-> "res", at |-> at]
PathV(p, at) == [k |-> "path", v |-> p, at |-> at]
OptV(v) == [k |-> "optval", v |-> v]

Event(e, k, x, t, a, L, R) == [e |-> e, k |-> k, x |-> x, t |-> t, a |-> a, L |-> L, R |-> R]
Emit(S, ev) == [S EXCEPT !.ev = Append(@, ev), !.n = @ + 1]
Mark(S, ev) == [S EXCEPT !.ev = Append(@, ev)]               \* brackets of an optional chain are not numbered
Sub(S) == [S EXCEPT !.ev = <<>>]                              \* a nested sequence starts
Back(S, sub) == [sub EXCEPT !.ev = S.ev]                      \* ... and the enclosing one continues
Out(S, v) == [S |-> S, v |-> v]
Out3(S, v, t) == [S |-> S, v |-> v, t |-> t]
Fresh(S) == [S EXCEPT !.ev = <<>>, !.n = 0, !.b = <<>>, !.cl = {}, !.pr = <<>>]       \* a function body is evaluated on its own

(* late: ids of calls whose identifier callee is read after the arguments (named deviation D23) *)
(* cl: temporaries that hold a chain written in parentheses, (a?.b): complete, a guard on them continues nothing *)
RECURSIVE PathStr(_)
PathStr(m) == IF m.t = "Identifier" THEN m.v ELSE PathStr(m.c[1]) \o "." \o m.c[2].v

(* pr: how often each static path X.y.z was read (a bag). Reads along static paths are not events -- the  *)
(* property lets X.prototype.m be read before or after a this-argument -- but none may be added or lost. *)
(* d21: ids of the optional-call links evaluated with the named deviation D21 -- the call is made without its    *)
(* receiver (see D21Ids)                                                                                        *)
InitState(inj, hooks, late, d21) == [n |-> 0, ev |-> <<>>, b |-> <<>>, cl |-> {}, pr |-> <<>>, inj |-> inj, hooks |-> hooks,
                                     late |-> late, d21 |-> d21]
ReadPath(S, p) == [S EXCEPT !.pr = IF p \in DOMAIN @ THEN [@ EXCEPT ![p] = @ + 1] ELSE (p :> 1) @@ @]
(* reading o.x.y reads o.x on the way *)
RECURSIVE ReadPathAll(_, _)
ReadPathAll(S, m) == IF m.t # "MemberExpression" THEN S ELSE ReadPath(ReadPathAll(S, m.c[1]), PathStr(m))

(* values whose computation has no effect at all: literals and operations on them *)
IsPure(v) == v.k \in {"lit", "litop"}

IsInj(n, S) == n.t = "Identifier" /\ n.v \in S.inj
EnvOf(S) == [inj |-> S.inj, b |-> <<>>]


RECURSIVE PathRoot(_)
PathRoot(m) == IF m.t = "MemberExpression" THEN PathRoot(m.c[1]) ELSE m
IsStaticMember(m, S) == IsStaticPathS(m) /\ PathRoot(m).v \notin S.inj

EoFnKinds == {"FunctionDeclaration", "FunctionExpression", "ArrowFunctionExpression", "_Function",
            "MethodProperty", "GetterProperty", "SetterProperty", "Constructor", "StaticBlock"}

SkipStmt(s, S) == s.t = "EmptyStatement" \/ IsInjDecl(s, EnvOf(S)) \/ (S.hooks /\ IsPrologueIf(s))

(* output side: g == null ? undefined : REST  with g a bound injected name *)
IsGuardE(n, S) ==
  /\ S.hooks
  /\ n.t = "ConditionalExpression"
  /\ LET tst == StripParen(n.c[1]) IN
       /\ tst.t = "BinaryExpression" /\ tst.v = "=="
       /\ IsInj(tst.c[1], S) /\ tst.c[1].v \in DOMAIN S.b
       /\ tst.c[2].t = "NullLiteral"
  /\ IsIdentNamed(StripParen(n.c[2]), "undefined")

OpOf(op) == CASE op = "+=" -> "+" [] op = "-=" -> "-" [] op = "*=" -> "*" [] op = "/=" -> "/" [] op = "%=" -> "%"
              [] op = "**=" -> "**" [] op = "<<=" -> "<<" [] op = ">>=" -> ">>" [] op = ">>>=" -> ">>>"
              [] op = "&=" -> "&" [] op = "|=" -> "|" [] op = "^=" -> "^" [] OTHER -> op

(* the shape the lowering itself produces:  (t = B, .., t == null ? undefined : REST)  *)
IsLoweredChain(x, S) ==
  /\ x.t = "ParenthesisExpression" /\ x.c[1].t = "SequenceExpression" /\ Len(x.c[1].c[1].c) >= 2
  /\ LET last == StripParen(x.c[1].c[1].c[Len(x.c[1].c[1].c)]) IN
       /\ last.t = "ConditionalExpression"
       /\ LET tst == StripParen(last.c[1]) IN
            /\ tst.t = "BinaryExpression" /\ tst.v = "==" /\ IsInj(tst.c[1], S) /\ tst.c[2].t = "NullLiteral"
       /\ IsIdentNamed(StripParen(last.c[2]), "undefined")

IsCallApply(c) == c.t = "MemberExpression" /\ c.c[2].t = "Identifier" /\ c.c[2].v \in {"call", "apply"}
StripAt(v) == IF v.k = "path" THEN [v EXCEPT !.at = 0] ELSE v

RECURSIVE Eval(_, _), EKids(_, _, _, _), ESeq(_, _, _, _), ERef(_, _), EKey(_, _), EArgs(_, _, _, _),
          ELink(_, _), EAssign(_, _), ECall(_, _), EFn(_, _), EElems(_, _, _, _), EApplyArgs(_, _, _, _)

(* children in order; injected declarations, the prologue and empty statements are skipped; a list is flattened *)
EKids(kids, i, S, acc) ==
  IF i > Len(kids) THEN [S |-> S, vs |-> acc]
  ELSE IF SkipStmt(kids[i], S) THEN EKids(kids, i + 1, S, acc)
  ELSE IF kids[i].t = "_L" THEN
       LET r == EKids(kids[i].c, 1, S, <<>>) IN EKids(kids, i + 1, r.S, acc \o r.vs)
  ELSE LET r == Eval(kids[i], S) IN EKids(kids, i + 1, r.S, Append(acc, r.v))

ESeq(es, i, S, last) ==
  IF i > Len(es) THEN Out(S, last)
  ELSE LET r == Eval(es[i], S) IN ESeq(es, i + 1, r.S, r.v)

(* a property key: name, #name, or the value of a computed key *)
EKey(p, S) ==
  CASE p.t = "Identifier" -> [S |-> S, k |-> p.v, kv |-> NoV]
    [] p.t = "PrivateName" -> [S |-> S, k |-> "#" \o p.v, kv |-> NoV]
    [] p.t = "Computed" -> LET r == Eval(p.c[1], S) IN [S |-> r.S, k |-> "[]", kv |-> r.v]
    [] OTHER -> LET r == Eval(p, S) IN [S |-> r.S, k |-> "?", kv |-> r.v]

(* a callee: value of the function and the receiver it is called with *)
ERef(x, S) ==
  LET m == StripParen(x) IN
  IF m.t = "MemberExpression" THEN
       \* the last link of a callee is always a read of its own (the receiver may be a static path)
       LET o == IF m.c[1].t = "Super" THEN Out(S, [k |-> "super"]) ELSE Eval(m.c[1], S)
           ky == EKey(m.c[2], o.S)
           S2 == Emit(ky.S, Event("get", ky.k, o.v, NoV, <<ky.kv>>, <<>>, <<>>))
       IN Out3(S2, ResV(ky.S.n), o.v)
  ELSE IF m.t = "SuperPropExpression" THEN
       LET ky == EKey(m.c[2], S)
           S2 == Emit(ky.S, Event("get", ky.k, [k |-> "super"], NoV, <<ky.kv>>, <<>>, <<>>))
       IN Out3(S2, ResV(ky.S.n), [k |-> "this"])
  ELSE LET r == Eval(x, S) IN Out3(r.S, r.v, NoV)

(* argument list of a call / new: a spread argument ...X is X iterated into a list at that point (one     *)
(* "array" event), unless X is a temporary: then the list was built when the temporary was assigned       *)
(* (t = [...X]) and is only passed on                                                                     *)
EArgs(args, i, S, acc) ==
  IF i > Len(args) THEN [S |-> S, vs |-> acc]
  ELSE IF args[i].t # "_arg" THEN EArgs(args, i + 1, S, Append(acc, [k |-> "hole"]))
  ELSE LET x == StripParen(args[i].c[1])
           r == Eval(x, S)
       IN IF ~IsSpreadArg(args[i]) THEN EArgs(args, i + 1, r.S, Append(acc, r.v))
          \* (a literal spread as well: the iteration of a literal runs no user code)
          \* (a parenthesised literal is an expression like any other: both sides build its list)
          ELSE IF IsInj(x, S) \/ IsLit(args[i].c[1]) THEN EArgs(args, i + 1, r.S, Append(acc, [k |-> "spread", v |-> r.v]))
          ELSE LET S2 == Emit(r.S, Event("array", "", NoV, NoV, <<[k |-> "spread", v |-> r.v]>>, <<>>, <<>>))
               IN EArgs(args, i + 1, S2, Append(acc, [k |-> "spread", v |-> ResV(r.S.n)]))

(* arguments of F.apply(...s, ..): an array literal among them is an argument list in the making *)
EApplyArgs(args, i, S, acc) ==
  IF i > Len(args) THEN [S |-> S, vs |-> acc]
  ELSE IF args[i].t = "_arg" /\ ~IsSpreadArg(args[i]) /\ StripParen(args[i].c[1]).t = "ArrayExpression" THEN
       LET el == EArgs(StripParen(args[i].c[1]).c[1].c, 1, S, <<>>)
           S2 == Emit(el.S, Event("array", "", NoV, NoV, el.vs, <<>>, <<>>))
       IN EApplyArgs(args, i + 1, S2, Append(acc, ResV(el.S.n)))
  ELSE LET one == EArgs(<<args[i]>>, 1, S, <<>>) IN EApplyArgs(args, i + 1, one.S, acc \o one.vs)

(* elements of an array literal: a spread element is part of the literal's own construction *)
EElems(els, i, S, acc) ==
  IF i > Len(els) THEN [S |-> S, vs |-> acc]
  ELSE IF els[i].t # "_arg" THEN EElems(els, i + 1, S, Append(acc, [k |-> "hole"]))
  ELSE LET r == Eval(els[i].c[1], S)
           v == IF IsSpreadArg(els[i]) THEN [k |-> "spread", v |-> r.v] ELSE r.v
       IN EElems(els, i + 1, r.S, Append(acc, v))

(* one link of an optional chain (or its head): value, receiver for a call that follows *)
ELink(x, S) ==
  IF ~IsOptChain(x) THEN ERef(x, S)
  ELSE LET b == x.c[1]
           opt == OptFlag(x)
       IN IF b.t = "MemberExpression" THEN
            \* the object of a member link is a value (a head o.x is a static path like anywhere else);
            \* only the callee of a call link needs its receiver
            LET o == IF IsOptChain(b.c[1]) THEN ELink(b.c[1], S)
                     ELSE LET r == Eval(b.c[1], S) IN Out3(r.S, r.v, NoV)
                S1 == IF opt THEN Mark(o.S, Event("optguard", "", o.v, NoV, <<>>, <<>>, <<>>)) ELSE o.S
                ky == EKey(b.c[2], S1)
                S2 == Emit(ky.S, Event("get", ky.k, o.v, NoV, <<ky.kv>>, <<>>, <<>>))
            IN Out3(S2, ResV(ky.S.n), o.v)
          ELSE IF b.t = "CallExpression" THEN
            \* D21: the rewriter keeps the receiver of an optional call only when the callee is, syntactically, a
            \* plain member expression; a callee that is a link of the chain (o?.x.f?.()) or a member in
            \* parentheses ((o.f)?.()) is extracted as a value and called without receiver
            LET lost == x.id \in S.d21
                c == IF lost /\ ~IsOptChain(b.c[1]) THEN LET r == Eval(b.c[1], S) IN Out3(r.S, r.v, NoV) ELSE ELink(b.c[1], S)
                S1 == IF opt THEN Mark(c.S, Event("optguard", "", c.v, NoV, <<>>, <<>>, <<>>)) ELSE c.S
                as == EArgs(b.c[2].c, 1, S1, <<>>)
                recv == IF lost THEN NoV ELSE c.t
                S2 == Emit(as.S, Event("call", "", c.v, recv, as.vs, <<>>, <<>>))
            IN Out3(S2, ResV(as.S.n), NoV)
          ELSE ERef(b, S)

(* a function-like node: the events of its parameters and body, evaluated on their own *)
EFn(n, S) ==
  LET body == n.c[Len(n.c)]
      \* an expression-bodied arrow and the block { return e } the rewriter gives it are the same function
      stmts == IF n.t = "ArrowFunctionExpression" /\ body.t = "BlockStatement"
               THEN SelectSeq(body.c[1].c, LAMBDA s : ~SkipStmt(s, S)) ELSE <<>>
      asExpr == n.t = "ArrowFunctionExpression" /\ body.t = "BlockStatement" /\ Len(stmts) = 1
                /\ stmts[1].t = "ReturnStatement" /\ stmts[1].c[1].t # "Null"
      kids == IF asExpr THEN SubSeq(n.c, 1, Len(n.c) - 1) \o <<stmts[1].c[1]>> ELSE n.c
      r == EKids(kids, 1, Fresh(S), <<>>)
  IN [k |-> "fn", t |-> n.t, a |-> n.a, v |-> n.v, ev |-> r.S.ev, vs |-> r.vs, pr |-> r.S.pr]

ECall(n, S) ==
  LET c0 == StripParen(n.c[1])
      args == n.c[2].c
  IN
  IF c0.t \in {"Super", "Import"} THEN
       LET as == EArgs(args, 1, S, <<>>) IN
       Out(Emit(as.S, Event("call", c0.t, NoV, NoV, as.vs, <<>>, <<>>)), ResV(as.S.n))
  ELSE IF IsCallApply(c0) /\ (Len(args) = 0 \/ ~IsSpreadArg(args[1])) THEN
       \* F.call(t, a..) / F.apply(t, [a..], surplus..) : F invoked with receiver t
       LET f == Eval(c0.c[1], S)
           th == IF Len(args) = 0 THEN Out(f.S, NoV) ELSE Eval(args[1].c[1], f.S)
           isApply == c0.c[2].v = "apply"
           arr == IF isApply /\ Len(args) >= 2 /\ ~IsSpreadArg(args[2]) THEN StripParen(args[2].c[1]) ELSE [t |-> "Null"]
           as == IF ~isApply THEN EArgs(args, 2, th.S, <<>>)
                 ELSE IF arr.t = "ArrayExpression"
                 THEN LET el == EArgs(arr.c[1].c, 1, th.S, <<>>)       \* the elements ARE the arguments
                          \* whatever follows the array is evaluated, and ignored by apply
                          sur == EArgs(args, 3, el.S, <<>>)
                      IN [S |-> sur.S, vs |-> el.vs]
                 ELSE LET rest == EArgs(args, 2, th.S, <<>>) IN [S |-> rest.S, vs |-> <<[k |-> "arraylike", a |-> rest.vs]>>]
       IN Out(Emit(as.S, Event("call", "", StripAt(f.v), th.v, as.vs, <<>>, <<>>)), ResV(as.S.n))
  ELSE IF IsCallApply(c0) THEN
       \* F.call(...s, ..): receiver and arguments come out of the spread; F is invoked all the same
       LET f == Eval(c0.c[1], S)
           as == IF c0.c[2].v = "apply" THEN EApplyArgs(args, 1, f.S, <<>>) ELSE EArgs(args, 1, f.S, <<>>)
       IN Out(Emit(as.S, Event("call", "spread-this " \o c0.c[2].v, StripAt(f.v), NoV, as.vs, <<>>, <<>>)), ResV(as.S.n))
  ELSE IF n.id \in S.late /\ c0.t = "Identifier" /\ c0.v \notin S.inj THEN
       LET as == EArgs(args, 1, S, <<>>) IN
       Out(Emit(as.S, Event("call", "", VarV(c0.v, as.S.n), NoV, as.vs, <<>>, <<>>)), ResV(as.S.n))
  ELSE LET r == ERef(c0, S)
           as == EArgs(args, 1, r.S, <<>>)
       IN Out(Emit(as.S, Event("call", "", r.v, r.t, as.vs, <<>>, <<>>)), ResV(as.S.n))

EAssign(n, S) ==
  LET op == n.v
      lhs == StripParen(n.c[1])
      rhs == n.c[2]
  IN
  IF IsInj(lhs, S) THEN
       \* t = E : the temporary holds the value; t = [...E] is E iterated once, to be spread later
       \* t = (a?.b) : a chain in parentheses is complete, a guard on t does not continue it
       LET r == Eval(rhs, S)
           \* (parentheses the program wrote: around a native chain, (a?.b), or around a chain that was itself
           \* lowered, ((t' = .., t' == null ? undefined : ..)); the lowering's own parentheses -- directly around
           \* its sequence -- are not a closing: the lower part of one chain can be lowered on its own)
           closed == rhs.t = "ParenthesisExpression" /\ ~IsLoweredChain(rhs, S)
       IN Out([r.S EXCEPT !.b = (lhs.v :> r.v) @@ @, !.cl = IF closed THEN @ \cup {lhs.v} ELSE @ \ {lhs.v}], r.v)
  ELSE IF lhs.t = "Identifier" THEN
       IF op = "=" THEN
            LET r == Eval(rhs, S) IN Out(Emit(r.S, Event("assign", lhs.v, r.v, NoV, <<>>, <<>>, <<>>)), r.v)
       ELSE IF op \in {"&&=", "||=", "??="} THEN
            LET cur == VarV(lhs.v, S.n)
                r == Eval(rhs, Sub(S))
                arm == Emit(r.S, Event("assign", lhs.v, r.v, NoV, <<>>, <<>>, <<>>))
            IN Out(Emit(Back(S, arm), Event("branch", op, cur, NoV, <<>>, arm.ev, <<>>)), ResV(arm.n))
       ELSE LET cur == VarV(lhs.v, S.n)
                r == Eval(rhs, S)
                S1 == Emit(r.S, Event("binop", OpOf(op), NoV, NoV, <<cur, r.v>>, <<>>, <<>>))
            IN Out(Emit(S1, Event("assign", lhs.v, ResV(r.S.n), NoV, <<>>, <<>>, <<>>)), ResV(r.S.n))
  ELSE IF lhs.t = "MemberExpression" THEN
       LET static == IsStaticMember(lhs, S)
           o == IF static THEN Out(ReadPathAll(S, lhs.c[1]), IF lhs.c[1].t = "Identifier" THEN VarV(lhs.c[1].v, S.n) ELSE PathV(PathStr(lhs.c[1]), S.n))
                ELSE IF lhs.c[1].t = "Super" THEN Out(S, [k |-> "super"]) ELSE Eval(lhs.c[1], S)
           ky == EKey(lhs.c[2], o.S)
       IN IF op = "=" THEN
               LET r == Eval(rhs, ky.S) IN
               Out(Emit(r.S, Event("set", ky.k, o.v, NoV, <<ky.kv, r.v>>, <<>>, <<>>)), r.v)
          ELSE LET Scur == IF static THEN ReadPath(ky.S, PathStr(lhs)) ELSE Emit(ky.S, Event("get", ky.k, o.v, NoV, <<ky.kv>>, <<>>, <<>>))
                   cur == IF static THEN PathV(PathStr(lhs), ky.S.n) ELSE ResV(ky.S.n)
               IN IF op \in {"&&=", "||=", "??="} THEN
                       LET r == Eval(rhs, Sub(Scur))
                           arm == Emit(r.S, Event("set", ky.k, o.v, NoV, <<ky.kv, r.v>>, <<>>, <<>>))
                       IN Out(Emit(Back(Scur, arm), Event("branch", op, cur, NoV, <<>>, arm.ev, <<>>)), ResV(arm.n))
                  ELSE LET r == Eval(rhs, Scur)
                           S1 == Emit(r.S, Event("binop", OpOf(op), NoV, NoV, <<cur, r.v>>, <<>>, <<>>))
                       IN Out(Emit(S1, Event("set", ky.k, o.v, NoV, <<ky.kv, ResV(r.S.n)>>, <<>>, <<>>)), ResV(r.S.n))
  ELSE \* destructuring assignment: the right side, then the pattern (defaults, computed keys) in order
       LET r == Eval(rhs, S)
           p == EKids(<<lhs>>, 1, Sub(r.S), <<>>)
       IN Out(Emit(Back(r.S, p.S), Event("destructure", op, r.v, NoV, p.vs, p.S.ev, <<>>)), r.v)

Eval(n, S) ==
  CASE n.t = "ParenthesisExpression" -> Eval(n.c[1], S)
    [] n.t = "Null" -> Out(S, NoV)
    [] n.t = "Identifier" ->
         IF n.a \in {"name", "name;rp"} THEN Out(S, [k |-> "name", v |-> n.v])
         ELSE IF n.v \in S.inj THEN Out(S, IF n.v \in DOMAIN S.b THEN S.b[n.v] ELSE [k |-> "unbound", v |-> n.v])
         ELSE Out(S, VarV(n.v, S.n))
    [] IsLit(n) -> Out(S, LitV(n))
    [] n.t = "ThisExpression" -> Out(S, [k |-> "this"])
    [] S.hooks /\ IsHookCall(n) -> Eval(HookWrapped(n), S)
    [] n.t = "SequenceExpression" -> ESeq(n.c[1].c, 1, S, NoV)
    [] n.t = "AssignmentExpression" -> EAssign(n, S)
    [] IsGuardE(n, S) ->
         LET g == StripParen(n.c[1]).c[1].v
             tv == S.b[g]
             \* t holds the lower part of the SAME chain (a?.b.c, not parenthesised): the guard continues it
             popped == tv.k = "optval" /\ g \notin S.cl /\ Len(S.ev) > 0 /\ S.ev[Len(S.ev)].e = "optend"
             S0 == IF popped THEN [S EXCEPT !.ev = SubSeq(@, 1, Len(@) - 1)] ELSE S
             gv == IF popped THEN tv.v ELSE tv
             S1 == [Mark(S0, Event("optguard", "", gv, NoV, <<>>, <<>>, <<>>)) EXCEPT !.b = (g :> gv) @@ @]
             r == Eval(n.c[3], S1)
             \* the upper links of the chain may have stayed native (hook(..)?.d): they close the chain themselves
             closed == Len(r.S.ev) > 0 /\ r.S.ev[Len(r.S.ev)].e = "optend" /\ r.v.k = "optval"
         IN IF closed THEN Out(r.S, r.v)
            ELSE Out(Mark(r.S, Event("optend", "", NoV, NoV, <<>>, <<>>, <<>>)), OptV(r.v))
    [] n.t = "ConditionalExpression" ->
         LET t == Eval(n.c[1], S)
             l == Eval(n.c[2], Sub(t.S))
             r == Eval(n.c[3], Sub(Back(t.S, l.S)))
             S3 == Back(t.S, r.S)
         IN Out(Emit(S3, Event("branch", "?:", t.v, NoV, <<l.v, r.v>>, l.S.ev, r.S.ev)), ResV(S3.n))
    [] n.t = "BinaryExpression" /\ n.v \in {"&&", "||", "??"} ->
         LET l == Eval(n.c[1], S)
             r == Eval(n.c[2], Sub(l.S))
             S2 == Back(l.S, r.S)
         IN Out(Emit(S2, Event("branch", n.v, l.v, NoV, <<r.v>>, r.S.ev, <<>>)), ResV(S2.n))
    [] n.t = "BinaryExpression" ->
         LET l == Eval(n.c[1], S)
             r == Eval(n.c[2], l.S)
         IN IF IsPure(l.v) /\ IsPure(r.v) THEN Out(r.S, [k |-> "litop", v |-> n.v, a |-> <<l.v, r.v>>])
            ELSE Out(Emit(r.S, Event("binop", n.v, NoV, NoV, <<l.v, r.v>>, <<>>, <<>>)), ResV(r.S.n))
    [] n.t = "UnaryExpression" /\ n.v = "delete" /\ StripParen(n.c[1]).t = "MemberExpression" ->
         LET m == StripParen(n.c[1])
             o == IF IsStaticMember(m, S) /\ m.c[1].t = "Identifier" THEN Out(S, VarV(m.c[1].v, S.n)) ELSE Eval(m.c[1], S)
             ky == EKey(m.c[2], o.S)
         IN Out(Emit(ky.S, Event("delete", ky.k, o.v, NoV, <<ky.kv>>, <<>>, <<>>)), ResV(ky.S.n))
    [] n.t = "UnaryExpression" ->
         LET r == Eval(n.c[1], S) IN
         IF IsPure(r.v) THEN Out(r.S, [k |-> "litop", v |-> n.v, a |-> <<r.v>>])
         ELSE Out(Emit(r.S, Event("unary", n.v, r.v, NoV, <<>>, <<>>, <<>>)), ResV(r.S.n))
    [] n.t = "MemberExpression" ->
         IF IsStaticMember(n, S) THEN Out(ReadPathAll(S, n), PathV(PathStr(n), S.n))
         ELSE LET r == ERef(n, S) IN Out(r.S, r.v)
    [] n.t = "SuperPropExpression" -> LET r == ERef(n, S) IN Out(r.S, r.v)
    [] n.t = "CallExpression" -> ECall(n, S)
    [] n.t = "NewExpression" ->
         LET f == Eval(n.c[1], S)
             as == IF n.c[2].t = "_L" THEN EArgs(n.c[2].c, 1, f.S, <<>>) ELSE [S |-> f.S, vs |-> <<>>]
         IN Out(Emit(as.S, Event("new", "", f.v, NoV, as.vs, <<>>, <<>>)), ResV(as.S.n))
    [] n.t = "OptionalChainingExpression" ->
         LET r == ELink(n, S) IN
         Out(Mark(r.S, Event("optend", "", NoV, NoV, <<>>, <<>>, <<>>)), OptV(r.v))
    [] n.t = "TemplateLiteral" ->
         LET r == EKids(n.c[1].c, 1, S, <<>>) IN
         IF \A i \in 1..Len(r.vs) : IsPure(r.vs[i]) THEN Out(r.S, [k |-> "litop", v |-> "tpl", a |-> r.vs])
         ELSE Out(Emit(r.S, Event("tpl", "", NoV, NoV, r.vs, <<>>, <<>>)), ResV(r.S.n))
    [] n.t = "TaggedTemplateExpression" ->
         LET f == ERef(n.c[1], S)
             r == EKids(n.c[Len(n.c)].c[1].c, 1, f.S, <<>>)
         IN Out(Emit(r.S, Event("call", "tagged", f.v, f.t, r.vs, <<>>, <<>>)), ResV(r.S.n))
    [] n.t = "ArrayExpression" ->
         LET r == EElems(n.c[1].c, 1, S, <<>>) IN
         Out(Emit(r.S, Event("array", "", NoV, NoV, r.vs, <<>>, <<>>)), ResV(r.S.n))
    [] n.t \in EoFnKinds -> Out(S, EFn(n, S))
    [] n.t = "_L" -> LET r == EKids(n.c, 1, S, <<>>) IN Out(r.S, [k |-> "list", a |-> r.vs])
    [] OTHER ->
         \* every other kind of node (statements, declarations, patterns, classes, object literals, await,
         \* yield, update, ...): its parts in order, nested under one event that carries its kind
         LET r == EKids(n.c, 1, Sub(S), <<>>)
             S1 == Back(S, r.S)
         IN Out(Emit(S1, Event("node", n.t \o "/" \o n.v \o "/" \o n.a, NoV, NoV, r.vs, r.S.ev, <<>>)), ResV(S1.n))

(* D21: when the rewriter lowers a chain it extracts everything below the first optional link (counted from   *)
(* the hooked method call downwards). If that link is an optional CALL whose callee is not, syntactically, a   *)
(* plain member expression -- a link of the chain (o?.x.f?.()) or a member in parentheses ((o.f)?.()) -- the    *)
(* callee is extracted as a value and called without receiver. hooked = ids of the hooked optional method calls *)
RECURSIVE FirstOptLink(_)
FirstOptLink(x) ==
  IF ~IsOptChain(x) THEN [found |-> FALSE]
  ELSE IF OptFlag(x) THEN [found |-> TRUE, node |-> x]
  ELSE FirstOptLink(x.c[1].c[1])
RECURSIVE D21Ids(_, _)
D21Ids(n, hooked) ==
  (IF n.id \in hooked /\ IsOptChain(n)
   THEN LET f == FirstOptLink(n) IN
        IF f.found /\ f.node.c[1].t = "CallExpression" /\ f.node.c[1].c[1].t # "MemberExpression" THEN {f.node.id} ELSE {}
   ELSE {})
  \cup UNION {D21Ids(n.c[k], hooked) : k \in 1..Len(n.c)}

(* the events of a whole program *)
EffectsOf(tree, inj, hooks, late, d21) ==
  LET S == Eval(tree, InitState(inj, hooks, late, d21)).S IN
  \* the bag of static-path reads outside any function rides along as a last pseudo-event
  Append(S.ev, Event("paths", "", [k |-> "bag", v |-> S.pr], NoV, <<>>, <<>>, <<>>))

(* first difference of two event sequences / two values, as a short text ("" = equal) *)
RECURSIVE FirstEffectDiff(_, _, _), ValDiff(_, _), ValsDiff(_, _, _)
ValDiff(x, y) ==
  IF x = y THEN ""
  ELSE IF x.k = "fn" /\ y.k = "fn" THEN
       IF x.ev # y.ev THEN "in a function: " \o FirstEffectDiff(x.ev, y.ev, 1)
       ELSE IF x.vs # y.vs THEN "in a function: " \o ValsDiff(x.vs, y.vs, 1)
       ELSE IF x.pr # y.pr THEN "in a function: static paths are read a different number of times: input " \o ToString(x.pr) \o " output " \o ToString(y.pr)
       ELSE "function kinds differ"
  ELSE IF x.k = "optval" /\ y.k = "optval" THEN ValDiff(x.v, y.v)
  ELSE IF x.k = "list" /\ y.k = "list" THEN ValsDiff(x.a, y.a, 1)
  ELSE "input " \o ToString(x) \o " output " \o ToString(y)
ValsDiff(xs, ys, i) ==
  IF i > Len(xs) \/ i > Len(ys) THEN "different number of operands"
  ELSE IF xs[i] = ys[i] THEN ValsDiff(xs, ys, i + 1)
  ELSE ValDiff(xs[i], ys[i])
FirstEffectDiff(a, b, i) ==
  IF i > Len(a) /\ i > Len(b) THEN ""
  ELSE IF i > Len(a) THEN "the output has an extra " \o b[i].e \o " " \o b[i].k
  ELSE IF i > Len(b) THEN "the output lacks a " \o a[i].e \o " " \o a[i].k
  ELSE IF a[i] = b[i] THEN FirstEffectDiff(a, b, i + 1)
  ELSE IF a[i].e # b[i].e \/ a[i].k # b[i].k
       THEN "event " \o ToString(i) \o ": input " \o a[i].e \o " " \o a[i].k \o ", output " \o b[i].e \o " " \o b[i].k
  ELSE IF a[i].L # b[i].L THEN "in " \o a[i].e \o " " \o a[i].k \o ": " \o FirstEffectDiff(a[i].L, b[i].L, 1)
  ELSE IF a[i].R # b[i].R THEN "in " \o a[i].e \o " " \o a[i].k \o " (else): " \o FirstEffectDiff(a[i].R, b[i].R, 1)
  ELSE IF a[i].x # b[i].x THEN a[i].e \o " " \o a[i].k \o ": " \o ValDiff(a[i].x, b[i].x)
  ELSE IF a[i].t # b[i].t THEN a[i].e \o " " \o a[i].k \o " receiver: " \o ValDiff(a[i].t, b[i].t)
  ELSE a[i].e \o " " \o a[i].k \o " operands: " \o ValsDiff(a[i].a, b[i].a, 1)
=============================================================================
