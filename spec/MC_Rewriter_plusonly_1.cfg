SPECIFICATION Spec
CONSTANTS CfgName = "plusonly" Depth = 1
INVARIANT Inv
CHECK_DEADLOCK FALSE
