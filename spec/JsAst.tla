------------------------------- MODULE JsAst -------------------------------
(***************************************************************************)
(* Syntax of JavaScript programs as uniform trees (see harness/py/norm.py). *)
(*                                                                         *)
(* A raw node (as recorded from the parser) is a record                    *)
(*   [t: kind, v: primary scalar, a: other scalars, c: <<children>>, id]   *)
(* Children are in swc field order, which is also swc's visiting order:    *)
(*   BinaryExpression        v = operator        c = <<left, right>>       *)
(*   AssignmentExpression    v = operator        c = <<left, right>>       *)
(*   UnaryExpression         v = operator        c = <<argument>>          *)
(*   MemberExpression                            c = <<object, property>>  *)
(*   CallExpression / New                        c = <<callee, _L(args)>>  *)
(*   _arg                    a = "spread" | ""   c = <<expression>>        *)
(*   ConditionalExpression                       c = <<test, cons, alt>>   *)
(*   SequenceExpression                          c = <<_L(expressions)>>   *)
(*   TemplateLiteral                             c = <<_L(exprs),_L(quasis)>>*)
(*   OptionalChainingExpression a = "optional=true|false"  c = <<base>>    *)
(*   ArrowFunctionExpression a = "generator=..;async=.."   c = <<_L(params), body>> *)
(*   BlockStatement                              c = <<_L(stmts)>>         *)
(*   VariableDeclaration     v = kind            c = <<_L(declarators)>>   *)
(*   VariableDeclarator                          c = <<id, init>>          *)
(*   Script / Module                             c = <<_L(body)>>          *)
(* Absent optional children are nodes of kind "Null".                      *)
(***************************************************************************)
EXTENDS Naturals, Sequences, FiniteSets, TLC

(* trees too deep for the JSON reader arrive flat: [nodes |-> <<[t, v, a, id, k: child indices]>>, root] *)
RECURSIVE TreeAt(_, _)
TreeAt(ns, i) ==
  [t |-> ns[i].t, v |-> ns[i].v, a |-> ns[i].a, id |-> ns[i].id, n |-> ns[i].n,
   l |-> ns[i].l, k |-> ns[i].k, el |-> ns[i].el, ek |-> ns[i].ek,
   mf |-> IF "mf" \in DOMAIN ns[i] THEN ns[i].mf ELSE FALSE, mx |-> IF "mx" \in DOMAIN ns[i] THEN ns[i].mx ELSE FALSE,
   mm |-> IF "mm" \in DOMAIN ns[i] THEN ns[i].mm ELSE FALSE,
   ml |-> IF "ml" \in DOMAIN ns[i] THEN ns[i].ml ELSE 0, mk |-> IF "mk" \in DOMAIN ns[i] THEN ns[i].mk ELSE 0,
   c |-> [j \in 1..Len(ns[i].kids) |-> TreeAt(ns, ns[i].kids[j])]]
TreeOf(x) == IF "nodes" \in DOMAIN x THEN TreeAt(x.nodes, x.root) ELSE x

Kid(n, i) == n.c[i]
NKids(n) == Len(n.c)

IsIdent(n) == n.t = "Identifier"
IsIdentNamed(n, name) == n.t = "Identifier" /\ n.v = name

LitKinds == {"StringLiteral", "NumericLiteral", "BooleanLiteral", "NullLiteral",
             "RegExpLiteral", "BigIntLiteral", "JSXText"}
IsLit(n) == n.t \in LitKinds

RECURSIVE StripParen(_)
StripParen(n) == IF n.t = "ParenthesisExpression" THEN StripParen(n.c[1]) ELSE n

(* literal, or a '+'-tree of literals (parentheses transparent) *)
RECURSIVE LitOnly(_)
LitOnly(n) ==
  CASE IsLit(n) -> TRUE
    [] n.t = "ParenthesisExpression" -> LitOnly(n.c[1])
    [] n.t = "BinaryExpression" /\ n.v = "+" -> LitOnly(n.c[1]) /\ LitOnly(n.c[2])
    [] OTHER -> FALSE

IsMember(n) == n.t = "MemberExpression"
IsCall(n) == n.t = "CallExpression"
Callee(n) == n.c[1]
Args(n) == n.c[2].c            \* sequence of _arg nodes
ArgExpr(a) == a.c[1]
IsSpreadArg(a) == a.a = "spread"
Obj(n) == n.c[1]
Prop(n) == n.c[2]
IsStaticProp(n) == n.c[2].t = "Identifier"      \* n a MemberExpression: obj.name (not obj[expr], not obj.#p)
PropName(n) == n.c[2].v

IsOptChain(n) == n.t = "OptionalChainingExpression"
OptFlag(n) == n.a = "optional=true"
OptBase(n) == n.c[1]

(* the hook namespace: _ddiast.<name>(X, A...) *)
IsHookCall(n) ==
  /\ n.t = "CallExpression"
  /\ n.c[1].t = "MemberExpression"
  /\ IsIdentNamed(n.c[1].c[1], "_ddiast")
  /\ n.c[1].c[2].t = "Identifier"
  /\ Len(n.c[2].c) >= 1
  /\ ~IsSpreadArg(n.c[2].c[1])
HookName(n) == n.c[1].c[2].v
HookWrapped(n) == n.c[2].c[1].c[1]
HookArgs(n) == Tail(n.c[2].c)

(* every variable name (binding or reference) occurring in a tree; property names and object   *)
(* keys (attribute "name", set by the normaliser for swc IdentName nodes) are not variables    *)
IsNameOnlyIdent(n) == n.t = "Identifier" /\ (n.a = "name" \/ n.a = "name;rp")
RECURSIVE Names(_)
Names(n) ==
  (IF n.t = "Identifier" /\ ~IsNameOnlyIdent(n) THEN {n.v} ELSE {})
    \cup UNION {Names(n.c[i]) : i \in 1..Len(n.c)}

RECURSIVE TreeSize(_)
RECURSIVE SumSeq(_)
SumSeq(s) == IF s = <<>> THEN 0 ELSE Head(s) + SumSeq(Tail(s))
TreeSize(n) == 1 + SumSeq([i \in 1..Len(n.c) |-> TreeSize(n.c[i])])

(* statements lists: a directive is an expression statement whose expression is an        *)
(* unparenthesised string literal, in the leading run of such statements                   *)
IsDirectiveStmt(s) == s.t = "ExpressionStatement" /\ s.c[1].t = "StringLiteral"
RECURSIVE DirectivePrefixLen(_)
DirectivePrefixLen(stmts) ==
  IF stmts = <<>> \/ ~IsDirectiveStmt(Head(stmts)) THEN 0
  ELSE 1 + DirectivePrefixLen(Tail(stmts))

=============================================================================
