------------------------------ MODULE MC_Chain ------------------------------
(***************************************************************************)
(* Exhaustive check of the chaining algorithm against exact composition on *)
(* all small maps.  Generated positions 0..G-1 and intermediate positions  *)
(* 0..P-1 on one line; the rewrite map may map backwards (injected code).  *)
(* CONSTANT KeepUnmapped selects the algorithm: FALSE = as written in the  *)
(* original code (tokens without image dropped), TRUE = repaired.          *)
(***************************************************************************)
EXTENDS SourceMapChain, Json
CONSTANTS G, P, MaxR, MaxO, KeepUnmapped,
          Ranges          \* {FALSE}: ordinary original tokens only; BOOLEAN: range tokens too

VARIABLES R, O, done
vars == <<R, O, done>>

Srcs == {"s1", "s2"}

(* strictly increasing generated columns, arbitrary targets *)
RTokens(cols, tgt) == [i \in 1..Len(cols) |->
   [gl |-> 0, gc |-> cols[i], mapped |-> tgt[i] < P, src |-> "mid", sl |-> 0,
    sc |-> IF tgt[i] < P THEN tgt[i] ELSE 0, name |-> ""]]
OTokens(cols, tgt) == [i \in 1..Len(cols) |->
   [gl |-> 0, gc |-> cols[i], mapped |-> tgt[i][1] # "none", src |-> tgt[i][1], sl |-> 0,
    sc |-> tgt[i][2], name |-> "", rng |-> tgt[i][3]]]

IncSeqs(n, maxlen) == UNION {{s \in [1..k -> 0..(n - 1)] : \A i \in 1..(k - 1) : s[i] < s[i + 1]} : k \in 0..maxlen}

Init ==
  /\ \E rc \in IncSeqs(G, MaxR) : \E rt \in [1..Len(rc) -> 0..P] :      \* target P = unmapped rewrite token
       R = RTokens(rc, rt)
  /\ \E oc \in IncSeqs(P, MaxO) : \E ot \in [1..Len(oc) -> (Srcs \cup {"none"}) \X (0..1) \X Ranges] :
       O = OTokens(oc, ot)
  /\ done = FALSE
Next == ~done /\ done' = TRUE /\ UNCHANGED <<R, O>>
Spec == Init /\ [][Next]_vars

ChainIsExact == ExactComposition(ChainAlgo(R, O, KeepUnmapped), R, O)
=============================================================================
