----------------------------- MODULE MC_Rewriter -----------------------------
(***************************************************************************)
(* Exhaustive design-level check of the rewriter model.  TLC enumerates    *)
(* EVERY program of a bounded grammar (primaries, one layer of calls /     *)
(* optional chains / prototype calls, one or two layers of operators, in   *)
(* each statement context) as an initial state, computes the model's       *)
(* rewrite (Rewriter.tla) and checks, on the PREDICTED output, the same    *)
(* deciders that judge real observations:                                  *)
(*   Erasable (C02), HookArgsFaithful (C03), AllSitesHooked (C04),         *)
(*   OnlyEnabledTouched (C05), Hygienic (C06), DirectivesPreserved (C07),  *)
(*   StatusMatchesContent (C12), CountEqualsHookSites (C15),               *)
(*   EffectOrderPreserved (C01: the symbolic order of effects).            *)
(* Every enumerated program is also emitted (REPLAY) and replayed into the *)
(* real rewriter, where TraceStatic.tla compares the observed output with  *)
(* the model's prediction: the design result transfers to the code exactly *)
(* for the programs on which the model does not drift.                     *)
(***************************************************************************)
EXTENDS EffectOrder, Hygiene, Rewriter, Json

CONSTANTS CfgName, Depth

VARIABLE prog
vars == <<prog>>

Str(s) == RN("StringLiteral", s, "", <<>>)
Num1 == RN("NumericLiteral", "1.0", "", <<>>)
NullN == RN("Null", "", "", <<>>)
Bin(op, l, r) == RN("BinaryExpression", op, "", <<l, r>>)
Call0(f) == CallE(Id(f), <<>>)
MCall(recv, m, args) == CallE(MemberE(recv, m), [i \in 1..Len(args) |-> Arg(args[i], FALSE)])
OptN(flag, base) == RN("OptionalChainingExpression", "", IF flag THEN "optional=true" ELSE "optional=false", <<base>>)
OptMCall(recv, m, args) ==     \* recv?.m(args)
  OptN(FALSE, CallE(OptN(TRUE, MemberE(recv, m)), [i \in 1..Len(args) |-> Arg(args[i], FALSE)]))
Proto(m, via, this, args) ==   \* String.prototype.m.call|apply(this, args)
  CallE(MemberE(MemberE(MemberE(Id("String"), "prototype"), m), via),
        <<Arg(this, FALSE)>> \o (IF via = "call" THEN [i \in 1..Len(args) |-> Arg(args[i], FALSE)]
                                 ELSE <<Arg(RN("ArrayExpression", "", "", <<L([i \in 1..Len(args) |-> Arg(args[i], FALSE)])>>), FALSE)>>))
Tpl2(x, y) == RN("TemplateLiteral", "", "", <<L(<<x, y>>), L(<<RN("TemplateElement", "p", "", <<>>), RN("TemplateElement", "q", "", <<>>), RN("TemplateElement", "", "", <<>>)>>)>>)
Tpl1(x) == RN("TemplateLiteral", "", "", <<L(<<x>>), L(<<RN("TemplateElement", "", "", <<>>), RN("TemplateElement", "z", "", <<>>)>>)>>)
Cond(t, a, b) == RN("ConditionalExpression", "", "", <<t, a, b>>)
AddAssign(t, r) == RN("AssignmentExpression", "+=", "", <<t, r>>)
Arrow(body) == RN("ArrowFunctionExpression", "", "async=false;generator=false", <<L(<<>>), body>>)

P0 == {Id("a"), Id("b"), Str("s"), Num1, Call0("f"), MemberE(Id("o"), "x")}
P0s == {Id("a"), Str("s"), Call0("f")}

(* one layer of calls *)
P1 == P0
      \cup {MCall(p, "trim", <<>>) : p \in P0}
      \cup {OptMCall(p, "trim", <<>>) : p \in {Id("a"), Call0("f"), MemberE(Id("o"), "x")}}
      \cup {MCall(p, "concat", <<q>>) : p \in P0s, q \in P0s}
      \cup {Proto("concat", via, p, <<q>>) : via \in {"call", "apply"}, p \in P0s, q \in {Id("b"), Str("s")}}
      \cup {CallE(Id("aloneMethod"), <<Arg(p, FALSE)>>) : p \in P0s}
      \cup {MCall(Id("a"), "foo", <<Id("b")>>), MCall(Id("a"), "concat", <<Id("b"), Id("a")>>),
            CallE(MemberE(Id("a"), "concat"), <<Arg(Id("b"), TRUE), Arg(Str("s"), FALSE)>>),
            OptN(TRUE, CallE(MemberE(Id("a"), "trim"), <<>>)),
            OptMCall(MemberE(OptN(TRUE, MemberE(Id("a"), "x")), "y"), "trim", <<>>),
            \* shapes behind later repairs and seeded changes
            CallE(MemberE(MemberE(Call0("f"), "concat"), "call"), <<Arg(Call0("g"), FALSE), Arg(Id("b"), FALSE)>>),   \* f().concat.call(g(), b)
            CallE(MemberE(MemberE(MemberE(Id("o"), "x"), "concat"), "call"), <<Arg(Id("a"), FALSE), Arg(Id("b"), FALSE)>>), \* o.x.concat.call(a, b)
            CallE(MemberE(MemberE(MemberE(Id("String"), "prototype"), "concat"), "apply"),
                  <<Arg(Id("a"), FALSE), Arg(RN("ArrayExpression", "", "", <<L(<<Arg(Id("b"), FALSE)>>)>>), FALSE), Arg(Call0("f"), FALSE)>>),
            OptMCall(MemberE(Id("String"), "prototype"), "trim", <<>>),                                               \* String.prototype?.trim()
            OptN(FALSE, CallE(OptN(FALSE, MemberE(OptN(TRUE, CallE(MemberE(Id("a"), "b"), <<Arg(Id("b"), FALSE)>>)), "trim")), <<>>)), \* a.b?.(b).trim()
            RN("UnaryExpression", "delete", "", <<MemberE(MCall(Id("a"), "trim", <<>>), "x")>>),
            CallE(MemberE(Id("a"), "concat"), <<Arg(RN("ArrayExpression", "", "", <<L(<<Arg(Id("b"), FALSE), Arg(Str("s"), FALSE)>>)>>), TRUE)>>)}  \* a.concat(...[b, 's'])

(* operands of the operator layer: a sample of P1 that keeps the product small *)
Ops == {Id("a"), Id("b"), Str("s"), Num1, Call0("f"), MCall(Id("a"), "trim", <<>>), OptMCall(Id("a"), "trim", <<>>),
        MCall(Str("s"), "concat", <<Id("a")>>), Proto("concat", "call", Id("a"), <<Id("b")>>), Bin("+", Str("s"), Str("t"))}

(* a compound operand in a position where the grammar needs parentheses gets them (a parse tree has them) *)
W(e) == IF e.t \in {"BinaryExpression", "ConditionalExpression", "AssignmentExpression", "ArrowFunctionExpression", "SequenceExpression"}
        THEN Paren(e) ELSE e

E1 == P1
      \cup {Bin("+", x, W(y)) : x \in Ops, y \in Ops}
      \cup {Tpl2(x, y) : x \in Ops, y \in {Id("b"), Call0("f"), Num1}}
      \cup {Tpl1(x) : x \in Ops}
      \cup {AddAssign(t, y) : t \in {Id("a"), MemberE(Id("o"), "x")}, y \in Ops}
      \cup {Bin("*", x, y) : x \in {Id("a"), Call0("f")}, y \in {Id("b"), MCall(Id("a"), "trim", <<>>)}}
      \cup {Cond(Id("c"), x, Num1) : x \in Ops}

E2core == {Bin("+", x, y) : x \in {Id("a"), Call0("f")}, y \in {Id("b"), MCall(Id("a"), "trim", <<>>)}}
            \cup {Tpl1(Id("a")), AddAssign(Id("a"), Call0("f"))}
E2 == E1
      \cup {Bin("+", x, Paren(e)) : x \in {Id("a"), Call0("f"), Str("s")}, e \in E2core}
      \cup {Bin("+", Paren(e), x) : x \in {Id("b"), Call0("f")}, e \in E2core}
      \cup {MCall(Paren(e), "trim", <<>>) : e \in E2core}
      \cup {MCall(Id("a"), "concat", <<e>>) : e \in E2core}
      \cup {Tpl2(e, Id("b")) : e \in E2core}
      \cup {Arrow(e) : e \in E2core}
      \cup {OptMCall(Id("a"), "concat", <<e>>) : e \in E2core \cup {OptMCall(Id("b"), "trim", <<>>)}}

Exprs == IF Depth = 1 THEN E1 ELSE E2

ExprStmt(e) == RN("ExpressionStatement", "", "", <<e>>)
Ret(e) == RN("ReturnStatement", "", "", <<e>>)
Block(stmts) == RN("BlockStatement", "", "", <<L(stmts)>>)
Fn(name, stmts) == RN("FunctionDeclaration", "", "generator=false;async=false", <<Id(name), L(<<>>), Block(stmts)>>)
Script(stmts) == RN("Script", "", "interpreter=null", <<L(stmts)>>)
UseStrict == ExprStmt(Str("use strict"))
Other == ExprStmt(Str("other"))
IfS(t, c, a) == RN("IfStatement", "", "", <<t, c, a>>)
VarD(name, init) == RN("VariableDeclaration", "const", "", <<L(<<RN("VariableDeclarator", "", "", <<Id(name), init>>)>>)>>)

Contexts(e) ==
  { Script(<<Fn("m", <<Ret(e)>>)>>),
    Script(<<Fn("m", <<Other, UseStrict, VarD("v", e), Ret(Id("v"))>>)>>),
    Script(<<Fn("m", <<IfS(e, ExprStmt(Call0("x")), ExprStmt(RN("AssignmentExpression", "=", "", <<Id("y"), e>>)))>>)>>),
    Script(<<UseStrict, Fn("m", <<Ret(Arrow(e))>>)>>),
    Script(<<ExprStmt(e)>>),
    Script(<<Fn("m", <<ExprStmt(e), ExprStmt(Bin("+", Str("x"), Str("y"))), Ret(Bin("+", Id("b"), W(e)))>>)>>) }

Programs == UNION {Contexts(e) : e \in Exprs}

Cfgs == [ full |-> [plus |-> "plusOperator", tpl |-> "tplOperator", prefix |-> "p", verbosity |-> "DEBUG",
                    methods |-> << [src |-> "trim", dst |-> "trim", bare |-> FALSE], [src |-> "concat", dst |-> "stringConcat", bare |-> FALSE],
                                   [src |-> "aloneMethod", dst |-> "aloneMethod", bare |-> TRUE] >>,
                    alldsts |-> <<"plusOperator", "tplOperator", "trim", "stringConcat", "aloneMethod">>],
          plusonly |-> [plus |-> "plus", tpl |-> "", prefix |-> "p", verbosity |-> "INFORMATION", methods |-> <<>>, alldsts |-> <<"plus">>],
          methods |-> [plus |-> "", tpl |-> "", prefix |-> "p", verbosity |-> "DEBUG",
                       methods |-> << [src |-> "trim", dst |-> "trim", bare |-> FALSE], [src |-> "concat", dst |-> "concat", bare |-> FALSE] >>,
                       alldsts |-> <<"trim", "concat">>] ]
Cfg == Cfgs[CfgName]

Init == prog \in Programs
Next == UNCHANGED prog
Spec == Init /\ [][Next]_vars

(* the model's prologue marker is injected code: transparent for every decider *)
RECURSIVE DropMarker(_)
DropMarker(n) == [n EXCEPT !.c = [i \in 1..Len(SelectSeq(n.c, LAMBDA s : s.t # "_Prologue")) |->
                                     DropMarker(SelectSeq(n.c, LAMBDA s : s.t # "_Prologue")[i])]]

(* ids: the deciders attribute hooks to input nodes by id; number the enumerated tree in preorder *)
RECURSIVE Number(_, _)
Number(n, next) ==
  LET RECURSIVE Kids(_, _, _)
      Kids(ks, i, nx) == IF i > Len(ks) THEN [kids |-> <<>>, nx |-> nx]
                         ELSE LET r == Number(ks[i], nx)
                                  rest == Kids(ks, i + 1, r.nx)
                              IN [kids |-> <<r.n>> \o rest.kids, nx |-> rest.nx]
      k == Kids(n.c, 1, next + 1)
  IN [n |-> [n EXCEPT !.id = next, !.c = k.kids], nx |-> k.nx]
Numbered(p) == Number(p, 1).n

HygDevsDesign == {"dev:D10-temporary-shared-across-activations"}
KnownDesignDevs == {"D6-compound-assignment-target-evaluated-twice"}

Judge(p) ==
  LET pred == Rewrite(p, Cfg) IN
  IF pred.outcome # "ok" THEN FALSE         \* no reserved names in the grammar: nothing may be refused
  ELSE LET modified == pred.status = "modified"
           out == DropMarker(pred.out)
           inj == IF modified THEN Injected(out, p) ELSE {}
           ci == Er(p, EmptyEnv({}))
           e == IF modified THEN Er(out, EmptyEnv(inj)) ELSE ci
           m == Match(e, ci)
           marks == Marks(e)
           sites == SitesOf(p, Ctx0, Cfg)
           pairs == IF m.ok THEN HookPairs(e, ci) ELSE {}
           hooked == {q[1] : q \in pairs}
           idx == 1..Len(sites)
           Erasable == m.ok /\ m.devs \subseteq KnownDesignDevs
           HookArgsFaithful == \A i \in 1..Len(marks) : marks[i].hw = "" \/ marks[i].hw \in DevWhys
           AllSitesHooked == \A i \in idx : sites[i].req => sites[i].id \in hooked
           OnlyEnabledTouched == \A q \in pairs : \E i \in idx : sites[i].id = q[1] /\ sites[i].en /\ sites[i].dst = q[2]
           Hygienic == ~modified \/ Hyg0(out, inj) \subseteq HygDevsDesign
           DirectivesPreserved == ~modified \/ DirList(out) = DirList(p)
           StatusMatchesContent == modified <=> (Len(marks) > 0)
           CountEqualsHookSites == pred.count = (IF Cfg.verbosity = "OFF" THEN 0 ELSE Cardinality(pairs))
           effOut == EffectsOf(out, inj, TRUE, {}, {})
           bare == {sites[i].id : i \in {j \in idx : sites[j].k = "bare" /\ sites[j].id \in hooked}}
           EffectOrderPreserved ==
             \/ ~modified
             \/ FirstEffectDiff(EffectsOf(p, {}, FALSE, {}, {}), effOut, 1) = ""
             \* the named deviations of the design: D6, D7b, D21, D23
             \/ m.devs # {} \/ (\E i \in 1..Len(marks) : marks[i].hw \in DevWhys) \/ HasOrigin(e, D21Mark)
             \/ (bare # {} /\ FirstEffectDiff(EffectsOf(p, {}, FALSE, bare, {}), effOut, 1) = "")
       IN /\ Erasable /\ HookArgsFaithful /\ AllSitesHooked /\ OnlyEnabledTouched
          /\ Hygienic /\ DirectivesPreserved /\ StatusMatchesContent /\ CountEqualsHookSites /\ EffectOrderPreserved

DesignHolds == Judge(Numbered(prog))
EmitReplay == PrintT("REPLAY|" \o ToJson(prog))
Inv == DesignHolds /\ EmitReplay
=============================================================================
