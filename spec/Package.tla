------------------------------- MODULE Package -------------------------------
(***************************************************************************)
(* Design model of the JS package glue (main.js CacheRewriter +             *)
(* js/source-map rewritten-map cache + js/stack-trace) for properties C11   *)
(* and C12 (package half).                                                  *)
(*                                                                         *)
(*   cache[f]  : version whose embedded map is cached for file f, or "none" *)
(*   loaded[f] : version of f whose returned text is the one in use         *)
(* A version has a class: "modified" | "notmodified" | "error".             *)
(* CONSTANT ClearOnNotModified: TRUE = the code as repaired (a not-modified *)
(* rewrite forgets the earlier map), FALSE = the original code (only ever   *)
(* sets entries).                                                           *)
(***************************************************************************)
EXTENDS Naturals, Sequences, FiniteSets, TLC, Json

CONSTANTS Files, Versions, ClassOf, MaxLen, ClearOnNotModified

VARIABLES cache, loaded, hist
vars == <<cache, loaded, hist>>

Init == /\ cache = [f \in Files |-> "none"]
        /\ loaded = [f \in Files |-> "none"]
        /\ hist = <<>>

Rewrite(f, v) ==
  /\ Len(hist) < MaxLen
  /\ hist' = Append(hist, [op |-> "rewrite", file |-> f, version |-> v])
  /\ CASE ClassOf[v] = "modified" -> cache' = [cache EXCEPT ![f] = v] /\ loaded' = [loaded EXCEPT ![f] = v]
       [] ClassOf[v] = "notmodified" ->
            /\ cache' = IF ClearOnNotModified THEN [cache EXCEPT ![f] = "none"] ELSE cache
            /\ loaded' = [loaded EXCEPT ![f] = v]
       [] OTHER -> UNCHANGED <<cache, loaded>>          \* the rewrite throws: the caller keeps what it had

(* an exception is thrown inside the text in use for f and its stack is prepared *)
Throw(f) ==
  /\ Len(hist) < MaxLen
  /\ loaded[f] # "none"
  /\ hist' = Append(hist, [op |-> "throw", file |-> f, version |-> loaded[f]])
  /\ UNCHANGED <<cache, loaded>>

Next == \E f \in Files : (\E v \in Versions : Rewrite(f, v)) \/ Throw(f)
Spec == Init /\ [][Next]_vars

(* C11: lookups use the map of the most recent rewrite -- the cached map is the map of the text in use *)
LookupUsesLatest ==
  \A f \in Files : cache[f] = (IF loaded[f] # "none" /\ ClassOf[loaded[f]] = "modified" THEN loaded[f] ELSE "none")

Emit == Len(hist) = MaxLen => PrintT("REPLAY|" \o ToJson(hist))
=============================================================================
