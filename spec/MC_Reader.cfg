SPECIFICATION Spec
INVARIANT Inv
CHECK_DEADLOCK FALSE
