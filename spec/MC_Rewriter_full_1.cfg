SPECIFICATION Spec
CONSTANTS CfgName = "full" Depth = 1
INVARIANT Inv
CHECK_DEADLOCK FALSE
