SPECIFICATION Spec
CONSTANTS Files = {"f1", "f2"} Versions <- VersionsDef ClassOf <- ClassOfDef MaxLen = 3 ClearOnNotModified = FALSE
INVARIANTS LookupUsesLatest Emit
CHECK_DEADLOCK FALSE
