---------------------------- MODULE TempLiveness ----------------------------
(***************************************************************************)
(* Why injected temporaries are safe (design argument behind property C06),*)
(* as an interleaving model.                                               *)
(*                                                                         *)
(* An ACTIVATION of instrumented code evaluates an outer hook site that    *)
(* contains an inner hook site:                                            *)
(*   1: W outer.l   2: CALLOUT   3: W inner.x   4: CALLOUT   5: R inner.x  *)
(*   6: W outer.r   7: R outer.l 8: R outer.r   9: done                    *)
(* Each write stores a token unique to (activation, site); a read must see *)
(* the token its own site wrote (ReadSeesOwnWrite).  JavaScript is single- *)
(* threaded: control can leave an activation only at a call-out (a call, a *)
(* getter, a coercion, a yield / await).  There the environment may        *)
(* re-enter the same code (recursion, a callback, a constructor running a  *)
(* field initialiser) or resume another suspended activation (generators,  *)
(* async functions).                                                       *)
(*                                                                         *)
(* Two design parameters:                                                  *)
(*   Numbering: "ResetAtRoot"  -- the code: the counter is reset only when *)
(*              control returns to the root context, so nested sites get   *)
(*              disjoint temporaries (inner x = 0, outer l, r = 1, 2);     *)
(*              "ResetInChild" -- a plausible mutation: the inner site     *)
(*              restarts at 0 while the outer site's temporary 0 is live;  *)
(*   Storage:   "PerActivation" -- the `let` sits in a block of the same   *)
(*              function activation as its uses;                           *)
(*              "Shared" -- the `let` sits in an enclosing activation's    *)
(*              block (parameter defaults, instance-field initialisers:    *)
(*              named deviation D10).                                      *)
(* TLC: ReadSeesOwnWrite holds iff Numbering = ResetAtRoot and Storage =   *)
(* PerActivation -- exactly the two premises Hygiene.tla establishes on    *)
(* every real output (disjoint live temporaries; same activation).         *)
(***************************************************************************)
EXTENDS Naturals, Sequences, FiniteSets, TLC

CONSTANTS MaxActs, Numbering, Storage

VARIABLES acts,   \* sequence of activations: [pc, store]
          cells,  \* store -> temp index -> token  (token = <<activation, site>>, or <<0, "none">>)
          cur,    \* index of the running activation (0 = none)
          ok      \* no read has seen a foreign token so far
vars == <<acts, cells, cur, ok>>

Temp(site) ==
  CASE site = "inner.x" -> 0
    [] site = "outer.l" -> IF Numbering = "ResetAtRoot" THEN 1 ELSE 0
    [] site = "outer.r" -> IF Numbering = "ResetAtRoot" THEN 2 ELSE 1

Empty == [t \in 0..2 |-> <<0, "none">>]

Init == /\ acts = << [pc |-> 1, store |-> 1] >>
        /\ cells = [s \in 1..MaxActs |-> Empty]
        /\ cur = 1
        /\ ok = TRUE

Write(a, site) == cells' = [cells EXCEPT ![acts[a].store][Temp(site)] = <<a, site>>]
Read(a, site) == ok' = (ok /\ cells[acts[a].store][Temp(site)] = <<a, site>>)
Advance(a) == acts' = [acts EXCEPT ![a].pc = @ + 1]

Step(a) ==
  /\ cur = a /\ acts[a].pc <= 8
  /\ CASE acts[a].pc = 1 -> Write(a, "outer.l") /\ Advance(a) /\ UNCHANGED <<cur, ok>>
       [] acts[a].pc = 3 -> Write(a, "inner.x") /\ Advance(a) /\ UNCHANGED <<cur, ok>>
       [] acts[a].pc = 5 -> Read(a, "inner.x") /\ Advance(a) /\ UNCHANGED <<cur, cells>>
       [] acts[a].pc = 6 -> Write(a, "outer.r") /\ Advance(a) /\ UNCHANGED <<cur, ok>>
       [] acts[a].pc = 7 -> Read(a, "outer.l") /\ Advance(a) /\ UNCHANGED <<cur, cells>>
       [] acts[a].pc = 8 -> Read(a, "outer.r") /\ Advance(a) /\ UNCHANGED <<cur, cells>>
       [] OTHER -> Advance(a) /\ UNCHANGED <<cur, cells, ok>>          \* a call-out that simply returns

AtCallout(a) == acts[a].pc \in {2, 4}
Finished(a) == acts[a].pc = 9

(* at a call-out the environment re-enters the same code: a new activation starts *)
ReEnter(a) ==
  /\ cur = a /\ AtCallout(a) /\ Len(acts) < MaxActs
  /\ acts' = Append(acts, [pc |-> 1, store |-> IF Storage = "PerActivation" THEN Len(acts) + 1 ELSE acts[a].store])
  /\ cur' = Len(acts) + 1
  /\ UNCHANGED <<cells, ok>>

(* control passes to another activation that is suspended at a call-out (or the running one finished) *)
Switch(a, b) ==
  /\ cur = a /\ a # b /\ (AtCallout(a) \/ Finished(a))
  /\ b \in 1..Len(acts) /\ AtCallout(b)
  /\ cur' = b
  /\ UNCHANGED <<acts, cells, ok>>

Next == \E a \in 1..Len(acts) : Step(a) \/ ReEnter(a) \/ \E b \in 1..Len(acts) : Switch(a, b)
Spec == Init /\ [][Next]_vars

ReadSeesOwnWrite == ok
=============================================================================
