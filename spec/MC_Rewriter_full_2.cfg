SPECIFICATION Spec
CONSTANTS CfgName = "full" Depth = 2
INVARIANT Inv
CHECK_DEADLOCK FALSE
