---------------------------- MODULE LiteralsObs ----------------------------
(***************************************************************************)
(* Property C14: the literal report of a rewrite call against the INPUT    *)
(* tree.  Expected(in) is the property's own definition, computed from     *)
(* the input (positions come from the normaliser, which derives them from  *)
(* the input text independently of the code under test).                   *)
(***************************************************************************)
EXTENDS JsAst

MinBytes == 10      \* more than
MaxBytes == 256     \* at most

KeyedKinds == {"KeyValueProperty", "MethodProperty", "GetterProperty", "SetterProperty",
               "ClassMethod", "ClassProperty", "PrivateMethod", "PrivateProperty",
               "KeyValuePatternProperty", "AssignmentPatternProperty", "Constructor"}
NonExprParents == {"ImportDeclaration", "ExportAllDeclaration", "ExportNamedDeclaration",
                   "ImportSpecifier", "ExportSpecifier", "ExportNamespaceSpecifier",
                   "ImportDefaultSpecifier", "ImportNamespaceSpecifier", "TsExternalModuleReference"}

FirstArgIsLiteral(args) == Len(args) >= 1 /\ ~IsSpreadArg(args[1]) /\ IsLit(args[1].c[1])

IsRequireLiteral(n) ==
  n.t = "CallExpression" /\ IsIdentNamed(n.c[1], "require") /\ FirstArgIsLiteral(n.c[2].c)
IsNewRegExpLiteral(n) ==
  /\ n.t = "NewExpression" /\ IsIdentNamed(n.c[1], "RegExp")
  /\ n.c[2].t = "_L" /\ FirstArgIsLiteral(n.c[2].c)

InRange(n) == n.n > MinBytes /\ n.n <= MaxBytes

(* ident = the variable or property name the literal initialises, "" if none *)
RECURSIVE Lits(_, _, _)
Lits(n, isExpr, ident) ==
  CASE IsRequireLiteral(n) \/ IsNewRegExpLiteral(n) -> {}
    [] n.t = "StringLiteral" ->
         IF isExpr /\ InRange(n) THEN {<<n.v, ident, n.l, n.k + 1>>} ELSE {}
    [] n.t = "VariableDeclarator" ->
         Lits(n.c[1], TRUE, "")
         \cup Lits(n.c[2], TRUE, IF n.c[1].t = "Identifier" THEN n.c[1].v ELSE "")
    [] n.t = "KeyValueProperty" ->
         Lits(n.c[1], FALSE, "")
         \cup Lits(n.c[2], TRUE, IF n.c[1].t = "Identifier" THEN n.c[1].v ELSE "")
    [] n.t \in NonExprParents -> UNION {Lits(n.c[j], FALSE, "") : j \in 1..Len(n.c)}
    [] n.t \in KeyedKinds ->
         UNION {Lits(n.c[j], j # 1, "") : j \in 1..Len(n.c)}
    [] OTHER -> UNION {Lits(n.c[j], TRUE, "") : j \in 1..Len(n.c)}

Expected(in) == Lits(in, TRUE, "")

Reported(r) == {<<r.literal_locs[i].value, r.literal_locs[i].ident, r.literal_locs[i].line, r.literal_locs[i].col>>
                : i \in 1..Len(r.literal_locs)}

(* "" when the report is exactly right, else why not *)
LiteralsWhy(r, in) ==
  IF ~r.cfg.literals THEN
    IF r.has_literals THEN "collection disabled but a report was produced" ELSE ""
  ELSE IF ~r.has_literals THEN "collection enabled but no report"
  ELSE LET exp == Expected(in)
           rep == Reported(r)
       IN IF Cardinality(rep) # Len(r.literal_locs) THEN "an occurrence is listed more than once"
          ELSE IF Cardinality({r.literal_values[i] : i \in 1..Len(r.literal_values)}) # Len(r.literal_values)
               THEN "equal values are not grouped"
          ELSE IF rep \ exp # {} THEN "reported but not expected: " \o ToString(CHOOSE x \in rep \ exp : TRUE)
          ELSE IF exp \ rep # {} THEN "expected but not reported: " \o ToString(CHOOSE x \in exp \ rep : TRUE)
          ELSE IF ~r.literals_file_ok THEN "file name not echoed"
          ELSE ""
=============================================================================
