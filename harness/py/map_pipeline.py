#!/usr/bin/env python3
"""Source-map pipeline (C09, C10, reader-fault half of C13): programs with generator-known layouts and
original maps of every reference kind are rewritten by the real rewriter through a fault-injecting
FileReader; the emitted trailer is decoded by the harness's own base64/VLQ decoder; TraceMap.tla judges
(a) every copied identifier / injected token position (MapCheck.tla), (b) exact composition of the
chained map (SourceMapChain.tla) and (c) the trailer / comment handling against SourceMapReader.tla."""
import base64, bisect, json, os, random, sys, time
import vlib, gen, norm, static_pipeline as sp

B64 = vlib.B64


def vlq(n):
    v = (-n << 1) | 1 if n < 0 else n << 1
    out = ""
    while True:
        d = v & 31
        v >>= 5
        if v:
            d |= 32
        out += B64[d]
        if not v:
            return out


def encode_mappings(tokens):
    """tokens: sorted list of (gl, gc, src|None, sl, sc, name|None) -> mappings string"""
    lines = {}
    for t in tokens:
        lines.setdefault(t[0], []).append(t)
    out = []
    src = sl = sc = nm = 0
    last = max(lines) if lines else -1
    for ln in range(last + 1):
        segs = []
        gc = 0
        for t in sorted(lines.get(ln, []), key=lambda x: x[1]):
            s = vlq(t[1] - gc)
            gc = t[1]
            if t[2] is not None:
                s += vlq(t[2] - src) + vlq(t[3] - sl) + vlq(t[4] - sc)
                src, sl, sc = t[2], t[3], t[4]
                if t[5] is not None:
                    s += vlq(t[5] - nm)
                    nm = t[5]
            segs.append(s)
        out.append(",".join(segs))
    return ";".join(out)


def encode_range_mappings(tokens, pick):
    """the "rangeMappings" string: per generated line a little-endian bit vector, 6 bits per base64 digit,
    bit i = the i-th segment of that line is a range token"""
    lines = {}
    for t in tokens:
        lines.setdefault(t[0], []).append(t)
    out = []
    for ln in range((max(lines) if lines else -1) + 1):
        ts = sorted(lines.get(ln, []), key=lambda x: x[1])
        bits = [i for i, t in enumerate(ts) if pick(ln, i, len(ts), t)]
        digits = [0] * ((max(bits) // 6 + 1) if bits else 0)
        for b in bits:
            digits[b // 6] |= 1 << (b % 6)
        out.append("".join(B64[d] for d in digits))
    return ";".join(out)


def decode_range_mappings(rm):
    """-> set of (line, segment index)"""
    out = set()
    for ln, part in enumerate((rm or "").split(";")):
        for k, ch in enumerate(part):
            d = B64.index(ch)
            for b in range(6):
                if d >> b & 1:
                    out.add((ln, 6 * k + b))
    return out


def rand_orig_map(rng, text, style):
    """an original map for the (intermediate) file `text`; returns (json_text, tokens with effective names)"""
    lines = text.split("\n")
    sources = ["orig/a.ts", "b.ts"] if rng.random() < 0.7 else ["only.ts"]
    names = ["n1", "n2", "n3"]
    root = rng.choice([None, None, "", "webpack/app", "root/"])
    toks = []
    first = True
    for ln, line in enumerate(lines):
        if style == "sparse" and rng.random() < 0.5:
            continue
        n = rng.choice([0, 1, 2, 3, 5]) if style != "dense" else min(len(line), 8)
        cols = sorted(set(rng.randrange(len(line) + 1) for _ in range(n))) if len(line) + 1 > 0 else []
        if style == "late" and first and cols:
            cols = [c for c in cols if c >= len(line) // 2] or [len(line)]
        for c in cols:
            first = False
            r = rng.random()
            if r < 0.1:
                toks.append((ln, c, None, 0, 0, None))
            else:
                toks.append((ln, c, rng.randrange(len(sources)), rng.randrange(0, 40), rng.randrange(0, 60),
                             rng.randrange(len(names)) if r > 0.7 else None))
    m = {"version": 3, "sources": sources, "names": names, "mappings": encode_mappings(toks)}
    if style != "late" and rng.random() < 0.25:
        # range tokens ("rangeMappings"): a token maps its whole run of columns, column by column.  Never the
        # last token of a line (sourcemap 8.0.1 subtracts columns across lines for a lookup that falls back
        # to it from a later line) and never a 1-field token
        rm = encode_range_mappings(toks, lambda ln, i, n, t: i < n - 1 and t[2] is not None and rng.random() < 0.6)
        if rm.strip(";"):
            m["rangeMappings"] = rm
    if root is not None:
        m["sourceRoot"] = root
    if rng.random() < 0.3:
        m["file"] = "out.js"
    return json.dumps(m), effective_tokens(m)


def join_root(root, src):
    if not root:
        return src
    if src.startswith("/") or "://" in src:
        return src
    return root + src if root.endswith("/") else root + "/" + src


def effective_tokens(m):
    """decoded tokens of a (regular) map object as records for TLA+"""
    root = m.get("sourceRoot")
    out = []
    for gl, gc, s, sl, sc, nm in vlib.decode_mappings(m.get("mappings", "")):
        if s is None:
            out.append({"gl": gl, "gc": gc, "mapped": False, "src": "", "sl": 0, "sc": 0, "name": ""})
        else:
            srcs = m.get("sources", [])
            name = m.get("names", [])[nm] if nm is not None and nm < len(m.get("names", [])) else ""
            out.append({"gl": gl, "gc": gc, "mapped": True,
                        "src": join_root(root, srcs[s]) if 0 <= s < len(srcs) else "<bad source index>",
                        "sl": sl, "sc": sc, "name": name})
    out.sort(key=lambda t: (t["gl"], t["gc"]))
    if m.get("rangeMappings"):
        ranges = decode_range_mappings(m["rangeMappings"])
        idx = {}
        for t in out:               # (maps made here have one token per generated position, in order)
            i = idx.get(t["gl"], 0)
            idx[t["gl"]] = i + 1
            if (t["gl"], i) in ranges:
                t["rng"] = True
    return out


def rust_file_name(p):
    """std::path::Path::file_name: last normal component ('' when there is none)"""
    parts = [x for x in p.split("/") if x not in ("", ".")]
    return parts[-1] if parts and parts[-1] != ".." else ""


class MapLookup:
    def __init__(self, tokens):
        self.t = tokens
        self.keys = [(t["gl"], t["gc"]) for t in tokens]

    def at(self, line0, col0):
        i = bisect.bisect_right(self.keys, (line0, col0)) - 1
        if i < 0:
            return {"mf": False, "mx": False, "mm": False, "ml": 0, "mk": 0}
        t = self.t[i]
        return {"mf": True, "mx": self.keys[i] == (line0, col0), "mm": bool(t["mapped"]),
                "ml": t["sl"] + 1, "mk": t["sc"]}


def annotate(node, lk):
    if node.get("l", 0) > 0:
        node.update(lk.at(node["l"] - 1, node["k"]))
    else:
        node.update({"mf": False, "mx": False, "mm": False, "ml": 0, "mk": 0})
    for c in node["c"]:
        annotate(c, lk)


# ------------------------------------------------------------------ programs with known layouts
LAYOUT_TEMPLATES = [
    "function m(a, b) {\n  const v = a + b();\n  return v;\n}\n",
    "function m(a, b) {\n  const v = a +\n      b() +\n      `x${a}y`;\n\n\n  return v.trim(\n    b\n  );\n}\n",
    "function m(a, b) {\r\n  let s = 'éé' + a;\r\n  s += b.concat(a,\r\n     'z');\r\n  return s;\r\n}\r\n",
    "class C {\n  m(a) {\n    if (a?.trim()) {\n      return a.x +\n        this.f();\n    }\n    return [a,\n      a + 1];\n  }\n}\n",
    "const s = '//# sourceMappingURL=lookalike.map'; const re = /\\/\\/# sourceMappingURL=.*/;\nfunction m(a) {\n  return `//# sourceMappingURL=${a}` + a;\n}\n",
    "'use strict';\n/* leading */\nfunction m(a, b) { // trailing\n  return String.prototype.concat.call(a, b,\n    ...a);\n}\n",
    "function m(a, b) {\n  for (let i = a + 1; i < b; i += a) {\n    x(a + i);\n  }\n  while (a.trim())\n    a = a + b;\n}\n",
    "function m(a, b) { return a + b; } function n(c) { return `${c}`; }\nconst q = (x) => x + 1;\n",
    "function m(a, b) {\n  x();\n  a?.trim().foo(b);\n  y();\n  b.q?.concat(a,\n    1)?.z;\n  return a?.b.trim()\n    .c;\n}\n",
    "\ufefffunction m(a, b) { const v = a + b(); return v; }\nfunction n(c) {\n  return `${c}` + c.trim();\n}\n",
]

REF_KINDS = ["none", "inline", "external_rel", "external_abs", "missing", "eisdir", "eacces", "bad_base64",
             "bad_json", "garbage_file", "index_inline", "index_external", "empty_url", "no_comma", "charset_inline",
             "block_comment", "two_comments", "huge", "empty_file", "comment_midfile", "long_missing", "long_external", "first_after_code", "percent_missing", "dotdot_external"]

# 63 ASCII bytes, then a two-byte character straddling byte 64
LONG_URL = "m" * 63 + "\u00e9/\u4e2d\u6587-bundle.js.map"


def make_case(rng, code, kind, chain, comments, style, file="/w/src/app.js", parent="default"):
    """-> case dict with code (+ reference), reader files, expected usable original map tokens"""
    cfg = dict(sp.FULL_CFG, chainSourceMap=chain, comments=comments)
    reader = {"parent": parent, "files": {}}
    if kind == "first_after_code":
        # where the references sit in the text must not matter: vary the offsets
        code = " " * rng.randrange(0, 14) + code
    omap_text, otoks = rand_orig_map(rng, code.rstrip("\n"), style)
    usable = False
    ref = None
    body = code if code.endswith("\n") else code + "\n"
    d = os.path.dirname(file)
    b64 = base64.b64encode(omap_text.encode()).decode()
    index_map = json.dumps({"version": 3, "sections": [{"offset": {"line": 0, "column": 0}, "map": json.loads(omap_text)}]})
    if kind == "inline":
        ref = "//# sourceMappingURL=data:application/json;base64," + b64
        usable = True
    elif kind == "charset_inline":
        ref = "//# sourceMappingURL=data:application/json;charset=utf-8;base64," + b64
        usable = None      # decoder-dependent: either reading is accepted
    elif kind == "external_rel":
        ref = "//# sourceMappingURL=app.js.map"
        reader["files"][os.path.join(d, "app.js.map")] = {"kind": "ok", "content": omap_text}
        usable = parent != "none" or None
    elif kind == "external_abs":
        ref = "//# sourceMappingURL=/maps/app.js.map"
        reader["files"]["/maps/app.js.map"] = {"kind": "ok", "content": omap_text}
        usable = True
    elif kind == "dotdot_external":
        # a reference that climbs out of the file's folder -- for a bare file name, above the working directory.
        # The map it names is usable; a DIFFERENT map sits where the reference would lead with its leading
        # `..` dropped
        ref = "//# sourceMappingURL=../maps/app.js.map"
        real = os.path.join(d, "../maps/app.js.map")
        for k in {real, os.path.normpath(real)}:
            reader["files"][k] = {"kind": "ok", "content": omap_text}
        decoy = json.dumps({"version": 3, "sources": ["decoy/other.ts"], "names": [], "mappings": "AAAA;AACA;AACA;AACA;AACA;AACA"})
        if not file.endswith("/"):
            reader["files"][os.path.join(d, "maps/app.js.map")] = {"kind": "ok", "content": decoy}
        usable = parent != "none" or None
    elif kind == "missing":
        ref = "//# sourceMappingURL=nowhere.map"
        if parent != "none" and file.startswith("/") and d not in ("", "/") and not file.endswith("/"):
            # a map of that name exists relative to the working directory: it is NOT the file's map
            decoy = json.dumps({"version": 3, "sources": ["other/project.ts"], "names": [], "mappings": "AAAA;AACA;AACA;AACA;AACA"})
            reader["files"]["nowhere.map"] = {"kind": "ok", "content": decoy}
    elif kind == "percent_missing":
        ref = "//# sourceMappingURL=" + rng.choice(["app%20v2.js.map?rev=%7", "%4", "50%)", "%%%", "a%2", "%", "x%zz.map"])
    elif kind == "long_missing":
        ref = "//# sourceMappingURL=" + LONG_URL
    elif kind == "long_external":
        ref = "//# sourceMappingURL=" + LONG_URL
        reader["files"][os.path.join(d, LONG_URL)] = {"kind": "ok", "content": omap_text}
        usable = parent != "none" or None
    elif kind in ("eisdir", "eacces", "huge"):
        ref = "//# sourceMappingURL=app.js.map"
        reader["files"][os.path.join(d, "app.js.map")] = {"kind": kind, "size": 1 << 20}
        usable = None if kind == "huge" else False
        if kind == "huge":
            otoks = [{"gl": ln, "gc": 0, "mapped": True, "src": "a.js", "sl": 0, "sc": 0, "name": ""}
                     for ln in range(len(code.split("\n")) + 2)]
    elif kind == "empty_file":
        ref = "//# sourceMappingURL=app.js.map"
        reader["files"][os.path.join(d, "app.js.map")] = {"kind": "ok", "content": ""}
    elif kind == "bad_base64":
        ref = "//# sourceMappingURL=data:application/json;base64,@@@not-base64@@@"
    elif kind == "bad_json":
        ref = "//# sourceMappingURL=data:application/json;base64," + base64.b64encode(b"{not json").decode()
    elif kind == "garbage_file":
        ref = "//# sourceMappingURL=app.js.map"
        reader["files"][os.path.join(d, "app.js.map")] = {"kind": "bytes", "bytes": [0, 159, 146, 150, 255, 254, 123]}
    elif kind == "index_inline":
        ref = "//# sourceMappingURL=data:application/json;base64," + base64.b64encode(index_map.encode()).decode()
    elif kind == "index_external":
        ref = "//# sourceMappingURL=app.js.map"
        reader["files"][os.path.join(d, "app.js.map")] = {"kind": "ok", "content": index_map}
    elif kind == "empty_url":
        ref = "//# sourceMappingURL="
    elif kind == "no_comma":
        ref = "//# sourceMappingURL=data:application/json;base64"
    elif kind == "block_comment":
        ref = "/*# sourceMappingURL=data:application/json;base64," + b64 + " */"
        usable = True
    elif kind == "first_after_code":
        # a reference to ANOTHER map right after the code of an earlier line, and the file's own reference at the end
        other = json.dumps({"version": 3, "sources": ["not-this-one.ts"], "names": [], "mappings": "AAAA;AACA;AACA;AACA"})
        lines = body.split("\n")
        cr = "\r" if lines[0].endswith("\r") else ""
        lines[0] = lines[0][:len(lines[0]) - len(cr)] + " //# sourceMappingURL=data:application/json;base64," + base64.b64encode(other.encode()).decode() + cr
        body = "\n".join(lines)
        ref = "//# sourceMappingURL=data:application/json;base64," + b64
        usable = True
    elif kind == "two_comments":
        ref = "//# sourceMappingURL=first.map\n//# sourceMappingURL=data:application/json;base64," + b64
        usable = True
    elif kind == "comment_midfile":
        # a reference in the middle of the file (bundles): still the file's reference for the rewriter
        lines = body.split("\n")
        lines.insert(max(1, len(lines) // 2), "//# sourceMappingURL=data:application/json;base64," + b64)
        body = "\n".join(lines)
        usable = None
    for k in list(reader["files"]):
        if not k.startswith("/"):
            reader["files"]["./" + k] = reader["files"][k]      # what a dirname()-style parent yields for "app.js"
    if ref is not None:
        body = body + ref + ("\n" if rng.random() < 0.5 else "")
    return {"code": body, "file": file, "config": cfg, "reader": reader, "kind": kind, "usable": usable,
            "otoks": otoks if usable is not False else [], "ref": ref}


def cases(seed, tier, model_tuples=None):
    rng = random.Random(seed * 104729 + 7)
    out = []
    files = ["/w/src/app.js", "/w/src/app.js", "app.js", "/deep/dir/x.min.js", "/w/sp ace/é.js"]
    progs = list(LAYOUT_TEMPLATES)
    n_rand = 60 if tier == "quick" else 1500
    for i in range(n_rand):
        g = gen.Gen(rng, max_depth=rng.choice([2, 3, 4]), multiline=True)
        progs.append(g.program())
    reps = 1 if tier == "quick" else 3
    for pi, code in enumerate(progs):
        for rep in range(reps):
            kinds = REF_KINDS if (pi < len(LAYOUT_TEMPLATES) or tier == "thorough") else rng.sample(REF_KINDS, 4)
            for kind in kinds:
                chain = rng.random() < 0.75
                comments = rng.random() < 0.6
                c = make_case(rng, code, kind, chain, comments, rng.choice(["random", "sparse", "late", "dense"]),
                              file=rng.choice(files), parent=rng.choice(["default", "default", "dirname", "none"]))
                c["name"] = "map/%d/%s/%d" % (pi, kind, rep)
                out.append(c)
    # real-world layouts (C09): library files without / with a random original map
    corpus = sorted(f for f in os.listdir(os.path.join(vlib.VERIF, "corpus")) if f.endswith(".js"))
    for f in (corpus if tier == "thorough" else rng.sample(corpus, min(16, len(corpus)))):
        code = open(os.path.join(vlib.VERIF, "corpus", f), encoding="utf-8", errors="replace").read()
        if "sourceMappingURL" in code:
            continue
        c = make_case(rng, code, rng.choice(["none", "inline", "external_rel"]), True, rng.random() < 0.5,
                      rng.choice(["random", "sparse"]), file="/w/corpus/" + f)
        c["name"] = "corpus/" + f
        out.append(c)
    # the full product of reference situations enumerated by TLC from SourceMapReader.tla (MC_Reader)
    for k, t in enumerate(model_tuples or []):
        for pi in (0, 5):
            c = make_case(rng, LAYOUT_TEMPLATES[pi], t["ref"], bool(t["chain"]), bool(t["comments"]),
                          rng.choice(["random", "late", "dense"]), file=rng.choice(files[:4]), parent=t["parent"])
            c["name"] = "mc/%s/%s/%s/%s/%d" % (t["ref"], t["parent"], t["chain"], t["comments"], pi)
            out.append(c)
    # file names without a directory x relative references x parent behaviours (C13)
    for fn in ["", "/", "x.js", ".", "a/", "//", "é", "x" * 2000]:
        for parent in ("default", "none", "dirname"):
            c = make_case(rng, LAYOUT_TEMPLATES[0], rng.choice(["external_rel", "missing", "inline"]), True, True, "random",
                          file=fn, parent=parent)
            c["name"] = "fname/%r/%s" % (fn[:10], parent)
            c["usable"] = None
            out.append(c)
    # a file of more than 256 KiB (a size at which "optimisations" like to kick in), small syntax tree
    big = LAYOUT_TEMPLATES[1] + "/* " + "pad " * 70000 + "*/\n" + LAYOUT_TEMPLATES[6]
    for chain in (False, True):
        c = make_case(rng, big, "inline" if chain else "none", chain, False, "sparse", file="/w/src/big.js")
        c["name"] = "big/%s" % chain
        out.append(c)
    # a line of more than 65 536 columns followed by lines laid out the same way (positions whose low 16 bits agree)
    stmt = "function m(a, b) { const v = a + b(); return v.trim(); } function n(c) { return `${c}` + c; }"
    for pad in (65536, 65536 * 2, 65536 + 7):
        longline = "/*" + "x" * (pad - 4) + "*/" + stmt + "\n" + stmt + "\n" + stmt.replace("m(", "m2(") + "\n"
        for style in ("dense", "random"):
            c = make_case(rng, longline, "inline", True, False, style, file="/w/src/min.js")
            c["name"] = "longline/%d/%s" % (pad, style)
            out.append(c)
    # the reader production code uses, pointed at things that are not regular files: a reference must never make the
    # call hang or exhaust memory (a FIFO nobody writes to, an endless device, a directory)
    specials = os.path.join(vlib.WORK, "specials")
    os.makedirs(specials, exist_ok=True)
    fifo = os.path.join(specials, "never-written.map")
    if not os.path.exists(fifo):
        os.mkfifo(fifo)
    for target in (fifo, "/dev/zero", specials, "/dev/null", "/proc/self/mem"):
        code = LAYOUT_TEMPLATES[0] + "//# sourceMappingURL=" + target + "\n"
        for chain in (True, False):
            out.append({"code": code, "file": "/w/src/app.js", "config": dict(sp.FULL_CFG, chainSourceMap=chain, comments=False),
                        "reader": {"real": True, "parent": "default", "files": {}}, "kind": "missing", "usable": False, "otoks": [],
                        "ref": "//# sourceMappingURL=" + target, "name": "special/%s/%s" % (target, chain)})
    # ... and at what IS the file's map: a regular file, a symbolic link to it, a link to that link, a link
    # reached through a relative reference (pnpm / bazel style layouts)
    for k, via in enumerate(("file", "link", "link2", "rel_link")):
        c = make_case(rng, LAYOUT_TEMPLATES[k % len(LAYOUT_TEMPLATES)], "external_abs", True, k % 2 == 0, "random", file=os.path.join(specials, "src", "app.js"))
        omap = c["reader"]["files"]["/maps/app.js.map"]["content"]
        real = os.path.join(specials, "real-%d.map" % k)
        with open(real, "w") as f:
            f.write(omap)
        os.makedirs(os.path.join(specials, "src"), exist_ok=True)
        l1, l2 = os.path.join(specials, "l1-%d.map" % k), os.path.join(specials, "src", "l2-%d.map" % k)
        for ln, tgt in ((l1, real), (l2, l1)):
            if os.path.lexists(ln):
                os.remove(ln)
            os.symlink(tgt, ln)
        target = {"file": real, "link": l1, "link2": l2, "rel_link": "l2-%d.map" % k}[via]
        c["code"] = c["code"].replace("//# sourceMappingURL=/maps/app.js.map", "//# sourceMappingURL=" + target)
        c["ref"] = "//# sourceMappingURL=" + target
        c["reader"] = {"real": True, "parent": "default", "files": {}}
        c["name"] = "special/real-map/%s" % via
        out.append(c)
    # unusual but legal file names (a backslash is an ordinary character on a '/'-separated host; names that
    # look like V8's virtual ones): the map's only source is still the base name, every position resolves
    for fn in ["/srv/app/generated\\join.js", "dist\\join.js", "<anonymous>", "<eval>/join.js", "/srv/app/lib/<generated>.js",
               "/w/a b/c d.js", "/w/a/b.c.min.js", "/w/\u00fc/\u00f1.js", "/w/a/%41.js", "/w/a/#x?.js",
               "/srv/app/cafe\u0301.js", "/w/a/del\x7fete.js", "/w/a/tab\tname.js", "/w/a/quote\"s'.js", "/w/a/\U0001F600.js"]:
        for ref in ("none", "inline"):
            c = make_case(rng, LAYOUT_TEMPLATES[rng.randrange(len(LAYOUT_TEMPLATES))], ref, True, rng.random() < 0.5, "random", file=fn)
            c["name"] = "name/%r/%s" % (fn, ref)
            out.append(c)
    return out


WANT = ["in_ast", "out_ast", "effective_config", "out_comments"]


def run(seed, tier, extra_cases=None, use_cache=True):
    key = "map-%s-%s-%s-%s" % (vlib.driver_hash(), sp.spec_hash(), seed, tier)
    cache = os.path.join(vlib.WORK, key + ".json")
    if use_cache and extra_cases is None and os.path.exists(cache):
        vlib.log("map pipeline: cached result", key)
        return json.load(open(cache))
    t0 = time.time()
    models = {}
    if extra_cases is None:
        # design models first (TLC and cargo never run concurrently)
        models["MC_Reader"] = vlib.run_model("MC_Reader", "MC_Reader.cfg", workers=1, timeout=300)
        models["MC_Chain"] = vlib.run_model("MC_Chain", "MC_Chain_fixed.cfg" if tier == "quick" else "MC_Chain_fixed_big.cfg",
                                            workers=8, timeout=3000)
        models["MC_Chain_ranges"] = vlib.run_model("MC_Chain", "MC_Chain_ranges.cfg" if tier == "quick" else "MC_Chain_ranges_big.cfg",
                                                   workers=8, timeout=3000)
    cs = extra_cases if extra_cases is not None else cases(seed, tier, models["MC_Reader"]["replays"])
    # batches: driver -> records -> ND-JSON chunk files (a thorough run has ~100 000 cases x 2 calls)
    os.makedirs(vlib.WORK, exist_ok=True)
    nchunks = max(1, min(vlib.NCPU, len(cs) // 150))
    paths = [os.path.join(vlib.WORK, "trace-map-%d-%d.ndjson" % (os.getpid(), q)) for q in range(nchunks)]
    files = [open(pth, "w") for pth in paths]
    bycase = {}
    nrecs = 0
    t1 = t0
    td = 0.0
    BATCH = 6000
    for b0 in range(0, len(cs), BATCH):
        bcs = cs[b0:b0 + BATCH]
        ta = time.time()
        reqs = []
        for i, c in enumerate(bcs):
            base = {"code": c["code"], "file": c["file"], "reader": c["reader"]}
            reqs.append(dict(base, id="%d/A" % (b0 + i), config=c["config"], want=WANT))
            reqs.append(dict(base, id="%d/B" % (b0 + i), config=dict(c["config"], chainSourceMap=False), want=["effective_config"]))
        resps = vlib.run_requests(reqs, nproc=vlib.NCPU)
        if any((r or {}).get("outcome") == "bad_request" for r in resps):
            raise vlib.ToolError("the driver could not decode a request")
        td += time.time() - ta
        recs = []
        for i, c in enumerate(bcs):
            rid = "m%d" % (b0 + i)
            ra, rb = resps[2 * i], resps[2 * i + 1]
            bycase[rid] = {"name": c["name"], "code": c["code"], "config": c["config"], "file": c["file"], "reader": c["reader"],
                           "kind": c["kind"], "outcome": ra.get("outcome"), "error": ra.get("error"),
                           "content": ra.get("content"), "key": [c["code"], c["config"], c["file"], c["reader"]],
                           "range_tokens": sum(1 for t in c.get("otoks") or [] if t.get("rng"))}
            rec = vlib.static_record(rid, reqs[2 * i], ra, with_pos=True)
            rec["kindref"] = c["kind"]
            rec["parent"] = c["reader"]["parent"]
            if rec["outcome"] != "ok" or rec.get("status") != "modified" or not rec.get("swc_out_ok", True):
                rec["mapcase"] = False
                recs.append(rec)
                continue
            content = ra["content"]
            body, mtext, ntr = vlib.split_trailer(content)
            lines = content.split("\n")
            nonempty = [ln for ln in lines if ln.strip()]
            last_nonempty = nonempty[-1] if nonempty else ""
            # "ends with exactly one trailer": how many trailer lines close the file
            ntr_end = 0
            for ln in reversed(nonempty):
                if ln.startswith(vlib.TRAILER):
                    ntr_end += 1
                else:
                    break
            try:
                mobj = json.loads(mtext) if mtext else None
            except ValueError:
                mobj = None
            bbody, bmtext, _ = vlib.split_trailer(rb.get("content") or "")
            try:
                bobj = json.loads(bmtext) if bmtext else None
            except ValueError:
                bobj = None
            ctoks = effective_tokens(mobj) if mobj and "mappings" in mobj else []
            rtoks = effective_tokens(bobj) if bobj and "mappings" in bobj else []
            # annotate the output tree with lookups in the emitted map; for C09 the un-chained map is the
            # one that speaks about the input text, so C09 is judged on the B (un-chained) map
            code_lines = c["code"].split("\n")
            outside = 0
            for t in rtoks:
                if t["mapped"]:
                    ln = t["sl"]
                    if ln >= len(code_lines) or t["sc"] > len(code_lines[ln].rstrip("\r")) + 1:
                        outside += 1
            out_tree = rec["out"] if "nodes" not in rec["out"] else None
            lk = MapLookup(rtoks)
            if out_tree is not None:
                annotate(out_tree, lk)
            else:
                for nd in rec["out"]["nodes"]:
                    nd.update(lk.at(nd["l"] - 1, nd["k"]) if nd.get("l", 0) > 0 else
                              {"mf": False, "mx": False, "mm": False, "ml": 0, "mk": 0})
            comments = ra.get("out_comments")
            n_url_comments = sum(1 for t in (comments or []) if t.strip().startswith("# sourceMappingURL=")) \
                if comments is not None else -1
            rec.update({
                "mapcase": True, "chain": bool(c["config"].get("chainSourceMap")), "keep_comments": bool(c["config"].get("comments")),
                "usable": {True: "yes", False: "no", None: "either"}[c["usable"]],
                "orig_used": bool(ra.get("orig_map_used")),
                "map_version": int((bobj or {}).get("version", 0)) if isinstance((bobj or {}).get("version", 0), int) else 0,
                "map_sources": [str(x) for x in (bobj or {}).get("sources", [])],
                "basename": rust_file_name(c["file"]),
                "map_outside": outside,
                "ctoks": ctoks, "rtoks": rtoks, "otoks": c["otoks"],
                "n_trailers": ntr_end, "trailer_last": last_nonempty.startswith(vlib.TRAILER),
                "trailer_decodes": mobj is not None,
                "n_url_comments": n_url_comments,
                "body_same_as_unchained": body == bbody,
                "had_ref": c["ref"] is not None,
                "odd_name": c["name"].startswith("fname/"),
            })
            bycase[rid]["map"] = mtext
            recs.append(rec)
        for q, rec in enumerate(recs):
            files[(nrecs + q) % nchunks].write(json.dumps(rec, ensure_ascii=True) + "\n")
        nrecs += len(recs)
        del reqs, resps, recs
    for f in files:
        f.close()
    t2 = time.time()
    t1 = t0 + td
    t2 = time.time()
    vlib.log("map pipeline: %d cases; driver %.1fs normalise %.1fs" % (len(cs), t1 - t0, t2 - t1))
    verdicts, st = vlib.validate_trace_files("TraceMap", "TraceMap.cfg", paths, "map")
    t3 = time.time()
    vlib.log("map pipeline: TLC validated %d records in %.1fs" % (nrecs, t3 - t2))
    byprop = {}
    for rid, prop, v, detail in verdicts:
        byprop.setdefault(prop, []).append((rid, v, detail))
    res = {"verdicts": byprop, "cases": bycase, "stats": {"cases": len(cs), "records": nrecs,
           "tlc_states": st["states"], "tlc_distinct": st["distinct"], "wall": t3 - t0,
           "models": {k: {"states": v["states"], "distinct": v["distinct"], "replays": len(v["replays"]),
                          "wall": round(v["wall"], 1)} for k, v in models.items()}}}
    if extra_cases is None:
        json.dump(res, open(cache, "w"))
    return res


if __name__ == "__main__":
    seed = int(os.environ.get("VERIF_SEED", "1"))
    tier = sys.argv[1] if len(sys.argv) > 1 else "quick"
    r = run(seed, tier, use_cache=False)
    for prop, vs in sorted(r["verdicts"].items()):
        cnt = {}
        for rid, v, d in vs:
            cnt[v] = cnt.get(v, 0) + 1
        print(prop, cnt)
        shown = 0
        for rid, v, d in vs:
            if v in ("reject", "dev") and shown < 15:
                shown += 1
                c = r["cases"][rid]
                print("   ", v, rid, c["name"], c["kind"], d[:400])
                print("       ", c["code"][:200].replace("\n", "\\n"), "| file:", c["file"][:30], "| chain/comments:", c["config"].get("chainSourceMap"), c["config"].get("comments"))
    print(r["stats"])
