#!/usr/bin/env python3
"""Package pipeline (C11, package half of C12): histories enumerated by TLC from Package.tla are replayed
against the REAL main.js / js/source-map / js/stack-trace of the repository (two resolver shims; the native
results come from the driver built from the same working tree), exceptions are thrown at generator-known
lines of the text in use, and TracePackage.tla validates what the package reports."""
import base64, json, os, random, shutil, sys, time
import posixpath
import vlib, gen, static_pipeline as sp, map_pipeline as mp

# (a directory name with characters that mean something to String.prototype.replace: paths are data)
# and a file directly under the root directory (containers run /server.js)
FILES = {"f1": "/one.js", "f2": "/w/l$&ib $'x/tw%41\u00f3.js"}
CFG = dict(sp.FULL_CFG, chainSourceMap=True)


def texts():
    t = {}
    t["modA"] = "\n\nfunction boom(a, b) {\n  const s = a + b;\n  throw new Error('boom ' + s);\n}\n"
    t["modB"] = "// pad\n// pad\n// pad\nfunction boom(a, b) {\n  const s = a.trim() +\n    `${b}`;\n\n\n  throw new Error(s +\n    'B');\n}\n"
    # the not-modified text throws on a line that every other version's map would translate to a different
    # line (checked by stale_map_guard): a stale map left over from an earlier rewrite must be visible
    # (rewritten files start with an 18-line prologue, so the line has to lie beyond it)
    t["plain"] = "function boom(a, b) {\n" + "  a;\n\n  b;\n" * 8 + "  throw new Error('plain');\n}\n"
    t["err"] = "function boom( {\n"
    # an error message that continues on a line starting with "at"
    t["atmsg"] = "function boom(a, b) {\n  const s = a + b;\n  throw new Error('boom ' + s + '\\nat home\\n    at all');\n}\n"
    # a line of the program (inside a template literal) that starts like a source-map reference
    t["marker"] = "function boom(a, b) {\n  const s = a + `\n//# sourceMappingURL=${b}`;\n  throw new Error('m' + s);\n}\n"
    # the throw site is on the very first line of the original
    t["oneline"] = "function boom(a, b) { const s = a + b; throw new Error('one ' + s); }\n"
    # the only link between the stack and the rewritten file is an eval origin: the function comes out of an eval
    # in the file and is called from elsewhere
    t["evalret"] = "function boom(a, b) {\n  const s = a + b;\n\n\n  return eval(\"(function(){ throw new Error('r' + s) })\");\n}\n"
    # a byte order mark is part of the caller's text
    t["bomplain"] = "\ufeff" + t["plain"]
    t["bommod"] = "\ufeff" + t["modA"]
    body = "function boom(a, b) {\n  const s = a + b;\n\n  throw new Error('chained ' + s);\n}\n"
    nlines = body.count("\n") + 1
    omap = {"version": 3, "sources": ["orig.ts"], "names": [],
            "mappings": mp.encode_mappings([(i, 0, 0, i + 100, 0, None) for i in range(nlines)])}
    t["chain"] = body + "//# sourceMappingURL=data:application/json;base64," + base64.b64encode(json.dumps(omap).encode()).decode() + "\n"
    # the original map names its source by an absolute path
    amap = dict(omap, sources=["/abs/src/orig.ts"])
    t["chainabs"] = body + "//# sourceMappingURL=data:application/json;base64," + base64.b64encode(json.dumps(amap).encode()).decode() + "\n"
    t["evalv"] = "function boom(a, b) {\n  const s = a + b;\n\n\n  return eval(\"(function(){ throw new Error('e' + s) })()\");\n}\n"
    return t


CLASSES = {"modA": "modified", "modB": "modified", "plain": "notmodified", "err": "error", "chain": "modified", "evalv": "modified",
           "bomplain": "notmodified", "bommod": "modified", "oneline": "modified", "evalret": "modified", "atmsg": "modified", "marker": "modified", "chainabs": "modified"}
THROW_LINE = {"modA": 5, "modB": 9, "plain": 26, "chain": 4 + 100, "evalv": 5, "bomplain": 26, "bommod": 5, "oneline": 1, "evalret": 5, "atmsg": 3, "marker": 4, "chainabs": 4 + 100}


def expected_lines(file):
    d = os.path.dirname(file)
    out = {}
    for v, ln in THROW_LINE.items():
        out[v] = {"path": os.path.join(d, "orig.ts") if v == "chain" else ("/abs/src/orig.ts" if v == "chainabs" else file), "line": ln}
    out["none"] = {"path": "", "line": 0}
    out["err"] = {"path": "", "line": 0}
    return out


def stale_map_guard(table, tx):
    """harness self-check: translating the throw position of a not-modified version w through the map of a modified
    version v must give a different line than w's own line, otherwise a stale map could not be seen"""
    for f in FILES.values():
        for v, text in tx.items():
            ent = table.get(text + "\u0000" + f)
            if CLASSES[v] != "modified" or not ent or "content" not in ent or v.startswith("prb"):
                continue            # (probe versions are never thrown from; their staleness is judged position by position)
            _, mj, _ = vlib.split_trailer(ent["content"])
            toks = sorted(t for t in vlib.decode_mappings(json.loads(mj)["mappings"]) if t[2] is not None)
            for w, ln in THROW_LINE.items():
                if CLASSES[w] != "notmodified":       # a modified rewrite always replaces the cached map
                    continue
                for col in (0, 8, 40):
                    below = [t for t in toks if (t[0], t[1]) <= (ln - 1, col)]
                    got = below[-1][3] + 1 if below else ln
                    if v in ("chain", "chainabs"):
                        got += 100
                    if got == ln:
                        raise vlib.ToolError("package texts do not discriminate: %s line %d reads the same through the map of %s" % (w, ln, v))


CFG_OFF = dict(CFG, telemetryVerbosity="OFF")


def run(seed, tier, extra_cases=None, use_cache=True):
    """the histories under the usual configuration, and a smaller set with telemetry off (a modified result then
    reports zero propagations: nothing in the glue may depend on the count)"""
    global CFG
    a = _run_cfg(seed, tier, extra_cases, use_cache, "")
    if extra_cases is not None:
        return a
    saved = CFG
    CFG = CFG_OFF
    try:
        b = _run_cfg(seed, tier, None, use_cache, "off")
    finally:
        CFG = saved
    for prop, vs in b["verdicts"].items():
        a["verdicts"].setdefault(prop, []).extend([("off:" + rid, v, d) for rid, v, d in vs])
    a["cases"].update({"off:" + k: c for k, c in b["cases"].items()})
    for k in ("histories", "events", "tlc_states", "tlc_distinct"):
        a["stats"][k] = a["stats"].get(k, 0) + b["stats"].get(k, 0)
    return a


def _run_cfg(seed, tier, extra_cases, use_cache, label):
    key = "package%s-%s-%s-%s-%s" % (label, vlib.driver_hash(), sp.spec_hash(), seed, tier)
    # the JS glue of the repository is part of what is checked
    import hashlib
    h = hashlib.sha256()
    for f in ("main.js", "js/source-map/index.js", "js/source-map/node_source_map.js", "js/stack-trace/index.js"):
        h.update(open(os.path.join(vlib.REPO, f), "rb").read())
    key += "-" + h.hexdigest()[:12]
    cache = os.path.join(vlib.WORK, key + ".json")
    if use_cache and extra_cases is None and os.path.exists(cache):
        vlib.log("package pipeline: cached result", key)
        return json.load(open(cache))
    t0 = time.time()
    rng = random.Random(seed)
    model = vlib.run_model("MC_Package", "MC_Package.cfg" if tier == "quick" else "MC_Package_big.cfg", workers=8, timeout=3000)
    hists = list(model["replays"]) if extra_cases is None else extra_cases
    if label == "off":
        hists = hists[::8]
    if extra_cases is None:
        # longer random histories (rewrite / throw interleavings beyond the exhaustive bound)
        vs = sorted(v for v in CLASSES if not v.startswith("prb"))      # (probe versions have no throw site)
        for i in range((600 if tier == "quick" else 6000) // (6 if label == "off" else 1)):
            h, loaded = [], {}
            for _ in range(rng.choice([5, 6, 8])):
                f = rng.choice(sorted(FILES))
                if loaded.get(f) and rng.random() < 0.45:
                    h.append({"op": "throw", "file": f, "version": loaded[f]})
                else:
                    v = rng.choice(vs)
                    h.append({"op": "rewrite", "file": f, "version": v})
                    if CLASSES[v] != "error":
                        loaded[f] = v
            hists.append(h)
    tx = texts()
    # probe versions: layout templates / random programs, with and without a random inline original map (chained)
    prng = random.Random(seed * 7919 + 3)
    probe_versions = []
    progs = list(mp.LAYOUT_TEMPLATES)
    for _ in range(4 if tier == "quick" else 60):
        progs.append(gen.Gen(prng, max_depth=prng.choice([2, 3, 4]), multiline=True).program())
    for k, code in enumerate(progs):
        kind = prng.choice(["none", "inline", "inline"])
        c = mp.make_case(prng, code, kind, True, prng.random() < 0.5, prng.choice(["random", "sparse", "late", "dense"]), file=FILES["f1"])
        v = "prb%d" % k
        tx[v] = c["code"]
        probe_versions.append(v)
    # native results for every (text, file)
    reqs, keys = [], []
    for v, text in list(tx.items()) + [("nobom:" + v, t[1:]) for v, t in tx.items() if t.startswith("\ufeff")]:
        # (the texts without their byte order mark are only table entries: should the package strip the mark before
        # calling the native rewriter, the replay still answers and the difference shows in what the package returns)
        for f in FILES.values():
            reqs.append({"id": "%s|%s" % (v, f), "code": text, "file": f, "config": CFG})
            keys.append((text, f))
    resps = vlib.run_requests(reqs, nproc=4)
    table = {}
    maps = {}          # "<file>|<version>" -> tokens of the map embedded in the native result (own decoder)
    nlines = {}
    for (text, f), r, rq in zip(keys, resps, reqs):
        k = text + "\u0000" + f
        if r.get("outcome") == "ok":
            table[k] = {"content": r["content"], "metrics": r["metrics"], "literals": r.get("literals")}
            v = rq["id"].split("|")[0]
            if (r.get("metrics") or {}).get("status") == "modified":
                body, mj, _ = vlib.split_trailer(r["content"])
                mo = json.loads(mj)
                srcs = mo.get("sources", [])
                maps["%s|%s" % (f, v)] = [{"gl": t[0], "gc": t[1], "mapped": t[2] is not None,
                                          "src": posixpath.normpath(posixpath.join(os.path.dirname(f), srcs[t[2]])) if t[2] is not None else "",
                                          "sl": t[3] if t[2] is not None else 0,
                                          "sc": t[4] if t[2] is not None else 0, "name": ""}
                                         for t in sorted(vlib.decode_mappings(mo["mappings"]), key=lambda t: (t[0], t[1]))]
                nlines["%s|%s" % (f, v)] = body.count("\n") + 2
        else:
            table[k] = {"error": r.get("error") or "native failure"}
    for v in probe_versions:
        ent = table.get(tx[v] + "\u0000" + FILES["f1"]) or {}
        CLASSES[v] = "error" if "error" in ent else ("modified" if ("%s|%s" % (FILES["f1"], v)) in maps else "notmodified")
    # probe histories: arbitrary positions of the file are translated through the public stack-trace API (fake call
    # sites); the specification looks them up in the map of the version ITS state says is cached for the file
    def positions(key):
        toks = maps.get(key, [])
        nl = nlines.get(key, 30)
        ps = [[prng.randint(1, nl + 2), prng.randint(1, 120)] for _ in range(14)]
        for t in prng.sample(toks, min(8, len(toks))):
            ps += [[t["gl"] + 1, t["gc"] + 1], [t["gl"] + 1, max(1, t["gc"] + prng.choice([0, 2]))]]
        ps += [[1, 1], [nl + 5, 1]]
        return ps
    n_probe_hists = 0
    if extra_cases is None:
        # more than a thousand other files rewritten between a rewrite and the error thrown in the file
        hists.append([{"op": "rewrite", "file": "f1", "version": "modA"}, {"op": "rewrite", "file": "f2", "version": "chain"},
                      {"op": "bulk", "file": "f2", "version": "modA", "n": 1100},
                      {"op": "throw", "file": "f1", "version": "modA"}, {"op": "throw", "file": "f2", "version": "chain"}])
        # the map store refuses the write during a rewrite (fault injection): the result is still the native one
        for v in ("modA", "modB", "chain", "plain", "err", "bommod"):
            hists.append([{"op": "rewrite", "file": "f1", "version": "modA"}, {"op": "rewrite_fault", "file": "f2", "version": v},
                          {"op": "throw", "file": "f1", "version": "modA"}])
        pool = probe_versions + ["modA", "modB", "chain", "plain", "err", "bommod"]
        for i in range(60 if tier == "quick" else 1200):
            h, last = [], {}
            for _ in range(prng.choice([2, 3, 4])):
                f = prng.choice(["f1", "f1", "f2"])
                v = prng.choice(pool)
                h.append({"op": "rewrite", "file": f, "version": v})
                if CLASSES[v] == "modified":
                    last[f] = v
                elif CLASSES[v] == "notmodified":
                    last[f] = None
                g = prng.choice(["f1", "f2"])
                key = "%s|%s" % (FILES[g], last.get(g)) if last.get(g) else "%s|%s" % (FILES[g], prng.choice(pool))
                h.append({"op": "probe", "file": g, "positions": positions(key)})
            hists.append(h)
            n_probe_hists += 1
    stale_map_guard(table, tx)
    # on-disk files for getOriginalPathAndLineFromSourceMap
    fsdir = os.path.join(vlib.WORK, "pkgfs")
    shutil.rmtree(fsdir, ignore_errors=True)
    os.makedirs(fsdir)
    gen_lines = 12
    omap = {"version": 3, "sources": ["src.ts"], "names": [],
            "mappings": mp.encode_mappings([(i, 0, 0, i + 50, 0, None) for i in range(gen_lines)])}
    open(os.path.join(fsdir, "gen.js"), "w").write("\n".join("x%d();" % i for i in range(gen_lines)) + "\n//# sourceMappingURL=gen.js.map")
    open(os.path.join(fsdir, "gen.js.map"), "w").write(json.dumps(omap))
    open(os.path.join(fsdir, "nomap.js"), "w").write("x();\ny();\n")
    open(os.path.join(fsdir, "broken.js"), "w").write("x();\n//# sourceMappingURL=broken.js.map")
    open(os.path.join(fsdir, "broken.js.map"), "w").write("{not json")
    open(os.path.join(fsdir, "missingmap.js"), "w").write("x();\n//# sourceMappingURL=nowhere.map")
    originals = [("mapped", os.path.join(fsdir, "gen.js"), 3, os.path.join(fsdir, "src.ts"), 53),
                 ("mapped-again", os.path.join(fsdir, "gen.js"), 7, os.path.join(fsdir, "src.ts"), 57),
                 ("no-map", os.path.join(fsdir, "nomap.js"), 2, os.path.join(fsdir, "nomap.js"), 2),
                 ("broken-map", os.path.join(fsdir, "broken.js"), 1, os.path.join(fsdir, "broken.js"), 1),
                 ("missing-map", os.path.join(fsdir, "missingmap.js"), 1, os.path.join(fsdir, "missingmap.js"), 1),
                 ("no-such-file", os.path.join(fsdir, "nope.js"), 4, os.path.join(fsdir, "nope.js"), 4),
                 ("never-rewritten", "/w/other/unknown.js", 9, "/w/other/unknown.js", 9)]
    # on-disk files with random maps (external file or inline; several sources, names, unmapped segments; no
    # sourceRoot): arbitrary positions are looked up through getOriginalPathAndLineFromSourceMap
    disk = []
    for k in range(6 if tier == "quick" else 40):
        code = mp.LAYOUT_TEMPLATES[k % len(mp.LAYOUT_TEMPLATES)]
        while True:
            omap_text, _ = mp.rand_orig_map(prng, code.rstrip("\n"), prng.choice(["random", "sparse", "late", "dense"]))
            mo = json.loads(omap_text)
            if "sourceRoot" not in mo:
                break
        fn = os.path.join(fsdir, "disk%d.js" % k)
        if k % 3 == 1:
            open(fn, "w").write(code + "//# sourceMappingURL=disk%d.js.map\n" % k)
            open(fn + ".map", "w").write(omap_text)
        elif k % 3 == 2:
            # the spelling Babel and webpack use for inline maps
            open(fn, "w").write(code + "//# sourceMappingURL=data:application/json;charset=utf-8;base64," + base64.b64encode(omap_text.encode()).decode() + "\n")
        else:
            open(fn, "w").write(code + "//# sourceMappingURL=data:application/json;base64," + base64.b64encode(omap_text.encode()).decode() + "\n")
        toks = [{"gl": t[0], "gc": t[1], "mapped": t[2] is not None,
                 "src": posixpath.normpath(fsdir + "/" + mo["sources"][t[2]]) if t[2] is not None else "",
                 "sl": t[3] if t[2] is not None else 0, "sc": t[4] if t[2] is not None else 0, "name": ""}
                for t in sorted(vlib.decode_mappings(mo["mappings"]), key=lambda t: (t[0], t[1]))]
        disk.append((fn, toks, code.count("\n") + 2))
    jobs = [{"id": "setup", "op": "setup", "repo": vlib.REPO, "table": table, "texts": tx, "config": CFG}]
    disk_toks = {}
    for hi, h in enumerate(hists):
        steps = [{"op": s["op"], "file": FILES[s["file"]], "version": s.get("version", ""), "positions": s.get("positions", []), "n": s.get("n", 0)} for s in h]
        if hi % 10 == 0:
            for kind, f, ln, ep, el in originals:
                steps.append({"op": "original", "file": f, "line": ln, "col": 1, "kind": kind, "exp_path": ep, "exp_line": el})
        if hi % 90 == 0:
            for fn, toks, nl in prng.sample(disk, 3):
                disk_toks[fn] = toks
                pos = [[prng.randint(1, nl), prng.randint(1, 90)] for _ in range(6)]
                for t in prng.sample(toks, min(4, len(toks))):
                    pos += [[t["gl"] + 1, t["gc"] + 1], [t["gl"] + 1, t["gc"] + 2]]
                for ln, col in pos:
                    steps.append({"op": "original", "file": fn, "line": ln, "col": col, "kind": "disk-probe", "exp_path": "", "exp_line": 0})
        jobs.append({"id": "h%d" % hi, "steps": steps})
    # the runner keeps the shared setup per process: give every chunk its own setup job
    nproc = min(vlib.NCPU, 8)
    chunks = [jobs[1:][k::nproc] for k in range(nproc)]
    results = {}
    import threading, subprocess
    lock = threading.Lock()

    def go(chunk):
        if not chunk:
            return
        p = subprocess.run([vlib.NODE, os.path.join(vlib.HARNESS, "js", "package_runner.js")],
                           input="\n".join(json.dumps(j) for j in [jobs[0]] + chunk) + "\n", capture_output=True, text=True, timeout=1800)
        for line in p.stdout.splitlines():
            if line.strip():
                r = json.loads(line)
                with lock:
                    results[r.get("id")] = r
    ths = [threading.Thread(target=go, args=(c,)) for c in chunks]
    for t in ths:
        t.start()
    for t in ths:
        t.join()
    t1 = time.time()
    # traces: one per history (independent package state), concatenated with init records
    recs = []
    bycase = {}
    n = 0
    missing = 0
    lines_tab = {f: expected_lines(f) for f in FILES.values()}
    for hi, h in enumerate(hists):
        r = results.get("h%d" % hi)
        if not r or "events" not in r:
            missing += 1
            continue
        for f in FILES.values():
            pass
        # lines are per file: one init record per history carrying both files' tables keyed "file|version"
        used = {"%s|%s" % (FILES[s["file"]], s["version"]) for s in h if s["op"] == "rewrite"} if any(s["op"] == "probe" for s in h) else set()
        recs.append({"ev": "init", "classes": dict(CLASSES, none="none"),
                     "lines": {}, "rid": "", "maps": {k: maps[k] for k in used if k in maps}})
        for e in r["events"]:
            n += 1
            rid = "p%d" % n
            rec = {"ev": e["op"], "rid": rid, "file": e["file"], "version": e.get("version", ""), "threw": bool(e.get("threw")),
                   "status": str(e.get("status", "")), "same_text": bool(e.get("same_text")), "has_trailer": bool(e.get("has_trailer")),
                   "fresh_same": bool(e.get("fresh_same")), "fresh_diff": str(e.get("fresh_diff", "")),
                   "has_hook": bool(e.get("has_hook")), "frames": [], "res_path": "", "res_line": 0, "exp_path": "", "exp_line": 0,
                   "kind": "", "line": 0, "col": 0, "res_col": 0, "toks": [], "probes": [],
                   "cfg_same": bool(e.get("cfg_same", True)), "cfg_got": str(e.get("cfg_got", "")),
                   "enclosing_bad": str(e.get("enclosing_bad", "")), "enclosing_checked": int(e.get("enclosing_checked", 0) or 0)}
            if e["op"] == "probe":
                rec["probes"] = [{"l": int(q[0]), "c": int(q[1]), "path": str(q[2]), "line": int(q[3] or 0), "col": int(q[4] or 0)}
                                 for q in e.get("results", [])]
            if e["op"] == "throw":
                rec["frames"] = [{"mode": fr.get("mode", ""), "path": str(fr.get("path", "")), "line": int(fr.get("line", 0) or 0)}
                                 for fr in e.get("frames", [])]
            if e["op"] == "original":
                src = [s for s in jobs[hi + 1]["steps"] if s["op"] == "original"]
                spec = src[len([x for x in recs if x.get("ev") == "original" and x.get("hist") == hi])]
                res = e.get("result") or {}
                rec.update({"res_path": str(res.get("path", "")), "res_line": int(res.get("line", 0) or 0),
                            "exp_path": spec["exp_path"], "exp_line": spec["exp_line"], "kind": spec["kind"], "line": spec["line"],
                            "col": spec["col"], "res_col": int(res.get("column", 0) or 0),
                            "toks": disk_toks.get(spec["file"], []) if spec["kind"] == "disk-probe" else [],
                            "hist": hi})
            recs.append(rec)
            bycase[rid] = {"name": "history %d" % hi, "history": h, "event": e, "code": json.dumps(h), "key": [hi, rid]}
    # the expected-line table depends on the file: give each init record the per-file table flattened by version for that
    # history's files; simpler: key the table by "<file>|<version>" and let the events carry the same key
    for rec in recs:
        if rec["ev"] == "init":
            rec["lines"] = {"%s|%s" % (f, v): val for f in FILES.values() for v, val in lines_tab[f].items()}
            rec["classes"] = {"%s|%s" % (f, v): c for f in FILES.values() for v, c in dict(CLASSES, none="none").items()}
        elif rec["ev"] in ("rewrite", "rewrite_fault"):
            rec["version"] = "%s|%s" % (rec["file"], rec["version"])
    if missing:
        raise vlib.ToolError("%d histories were not replayed by the package runner" % missing)
    # validate: chunks must start at an init record
    groups, cur = [], []
    for rec in recs:
        if rec["ev"] == "init" and cur:
            groups.append(cur)
            cur = []
        cur.append(rec)
    if cur:
        groups.append(cur)
    nchunks = min(vlib.NCPU, max(1, len(groups) // 100))
    parts = [[r for g in groups[k::nchunks] for r in g] for k in range(nchunks)]
    verdicts = []
    states = distinct = 0
    outs = [None] * nchunks

    def check(k):
        outs[k] = vlib.validate_trace("TracePackage", "TracePackage.cfg", parts[k], "pkg%d" % k, chunks=1)
    ths = [threading.Thread(target=check, args=(k,)) for k in range(nchunks)]
    for t in ths:
        t.start()
    for t in ths:
        t.join()
    for o in outs:
        if o is None:
            raise vlib.ToolError("a package trace was not validated")
        verdicts += o[0]
        states += o[1]["states"]
        distinct += o[1]["distinct"]
    t2 = time.time()
    vlib.log("package pipeline: %d histories, %d events; node %.1fs TLC %.1fs" % (len(hists), n, t1 - t0, t2 - t1))
    byprop = {}
    for rid, prop, v, detail in verdicts:
        byprop.setdefault(prop, []).append((rid, v, detail))
    res = {"verdicts": byprop, "cases": bycase, "stats": {"histories": len(hists), "events": n,
           "tlc_states": states + model["states"], "tlc_distinct": distinct + model["distinct"],
           "model_states": model["distinct"], "wall": t2 - t0}}
    if extra_cases is None:
        json.dump(res, open(cache, "w"))
    return res


if __name__ == "__main__":
    seed = int(os.environ.get("VERIF_SEED", "1"))
    tier = sys.argv[1] if len(sys.argv) > 1 else "quick"
    r = run(seed, tier, use_cache=False)
    for prop, vs in sorted(r["verdicts"].items()):
        cnt = {}
        for rid, v, d in vs:
            cnt[v] = cnt.get(v, 0) + 1
        print(prop, cnt)
        for rid, v, d in [x for x in vs if x[1] == "reject"][:8]:
            print("   ", rid, d[:400], "|", json.dumps(r["cases"][rid]["history"])[:200])
    print(r["stats"])
