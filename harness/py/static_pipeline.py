#!/usr/bin/env python3
"""The static pipeline shared by C02, C03 (static half), C04, C05, C12, C15:
generate programs + configurations -> real rewriter (driver) -> uniform trees -> TLC trace
validation with TraceStatic.tla -> per-property verdicts.  Results are cached per
(driver binary, spec sources, seed, tier) so the six checks share one run."""
import hashlib, json, os, random, sys, time
import vlib, gen

FULL_CFG = {"localVarPrefix": "p", "telemetryVerbosity": "DEBUG", "csiMethods": [
    {"src": "plusOperator", "operator": True}, {"src": "tplOperator", "operator": True},
    {"src": "trim"}, {"src": "concat"}, {"src": "substring", "dst": "stringSubstring"},
    {"src": "replace"}, {"src": "slice"}, {"src": "toUpperCase"}, {"src": "padStart"}, {"src": "repeat"},
    {"src": "aloneMethod", "allowedWithoutCallee": True}, {"src": "encodeURI"}]}

SUBSET_CFGS = [
    {"localVarPrefix": "p", "telemetryVerbosity": "DEBUG", "csiMethods": [{"src": "plusOperator", "operator": True}]},
    {"localVarPrefix": "p", "telemetryVerbosity": "INFORMATION", "csiMethods": [{"src": "tplOperator", "operator": True, "dst": "tpl"}]},
    {"localVarPrefix": "p", "telemetryVerbosity": "OFF", "csiMethods": [{"src": "trim", "dst": "stringTrim"}, {"src": "concat"}]},
    {"localVarPrefix": "q", "csiMethods": [{"src": "plusOperator"}, {"src": "trim", "operator": True}, {"src": "concat", "dst": "cc"},
                                           {"src": "aloneMethod", "dst": "alone", "allowedWithoutCallee": True}]},
    {"localVarPrefix": "p", "csiMethods": []},
]

WANT = ["in_ast", "out_ast", "effective_config"]


def cases(seed, tier):
    rng = random.Random(seed)
    out = []
    sysm = gen.systematic()
    for name, code in sysm:
        out.append({"name": "sys/full/" + name, "code": code, "config": FULL_CFG})
    # every seed op / context under reduced configurations (sampled in quick, all in thorough)
    for ci, cfg in enumerate(SUBSET_CFGS):
        pick = sysm if tier == "thorough" else rng.sample(sysm, 260)
        for name, code in pick:
            out.append({"name": "sys/cfg%d/%s" % (ci, name), "code": code, "config": cfg})
    n_random = 1500 if tier == "quick" else 30000
    for i in range(n_random):
        g = gen.Gen(rng, max_depth=rng.choice([3, 4, 5, 6]), multiline=rng.random() < 0.3)
        code = g.program()
        cfg = gen.rand_config(rng, force_full=rng.random() < 0.4)
        out.append({"name": "rnd/%d" % i, "code": code, "config": cfg})
    return out


def spec_hash():
    h = hashlib.sha256()
    for f in sorted(os.listdir(vlib.SPEC)):
        if f.endswith((".tla", ".cfg")):
            h.update(open(os.path.join(vlib.SPEC, f), "rb").read())
    for f in ("gen.py", "norm.py", "vlib.py", "static_pipeline.py"):
        h.update(open(os.path.join(vlib.HERE, f), "rb").read())
    return h.hexdigest()[:16]


def run(seed, tier, extra_cases=None, use_cache=True):
    """-> dict(verdicts={prop: [(rid, verdict, detail)]}, cases={rid: case}, stats)"""
    key = "static-%s-%s-%s-%s" % (vlib.driver_hash(), spec_hash(), seed, tier)
    cache = os.path.join(vlib.WORK, key + ".json")
    if use_cache and extra_cases is None and os.path.exists(cache):
        vlib.log("static pipeline: cached result", key)
        return json.load(open(cache))
    t0 = time.time()
    cs = extra_cases if extra_cases is not None else cases(seed, tier)
    reqs = []
    for i, c in enumerate(cs):
        reqs.append({"id": str(i), "code": c["code"], "file": c.get("file", "/w/src/test.js"),
                     "config": c["config"], "want": WANT})
    resps = vlib.run_requests(reqs, nproc=vlib.NCPU)
    t1 = time.time()
    recs = []
    bycase = {}
    outcomes = {}
    for i, (c, rq, rs) in enumerate(zip(cs, reqs, resps)):
        rid = "r%d" % i
        outcomes[rs.get("outcome", "abort")] = outcomes.get(rs.get("outcome", "abort"), 0) + 1
        bycase[rid] = {"name": c["name"], "code": c["code"], "config": c["config"], "outcome": rs.get("outcome"),
                       "error": rs.get("error"), "content": rs.get("content"), "metrics": rs.get("metrics")}
        if rs.get("outcome") != "ok":
            continue
        rec = vlib.static_record(rid, rq, rs)
        if rec["outcome"] != "ok":
            bycase[rid]["outcome"] = rec["outcome"]
            continue
        recs.append(rec)
    t2 = time.time()
    vlib.log("static pipeline: %d cases, %d records (outcomes %s); driver %.1fs normalise %.1fs" %
             (len(cs), len(recs), outcomes, t1 - t0, t2 - t1))
    verdicts, st = vlib.validate_trace("TraceStatic", "TraceStatic.cfg", recs, "static")
    t3 = time.time()
    vlib.log("static pipeline: TLC validated %d records in %.1fs" % (len(recs), t3 - t2))
    byprop = {}
    for rid, prop, v, detail in verdicts:
        byprop.setdefault(prop, []).append((rid, v, detail))
    res = {"verdicts": byprop, "cases": bycase, "stats": {
        "cases": len(cs), "records": len(recs), "outcomes": outcomes, "tlc_states": st["states"],
        "tlc_distinct": st["distinct"], "wall": t3 - t0}}
    if extra_cases is None:
        os.makedirs(vlib.WORK, exist_ok=True)
        json.dump(res, open(cache, "w"))
    return res


if __name__ == "__main__":
    seed = int(os.environ.get("VERIF_SEED", "1"))
    tier = sys.argv[1] if len(sys.argv) > 1 else "quick"
    r = run(seed, tier, use_cache=False)
    for prop, vs in sorted(r["verdicts"].items()):
        cnt = {}
        for rid, v, d in vs:
            cnt[v] = cnt.get(v, 0) + 1
        print(prop, cnt)
        shown = 0
        for rid, v, d in vs:
            if v in ("reject", "dev") and shown < 12:
                shown += 1
                print("   ", v, rid, r["cases"][rid]["name"], d[:200])
                print("       ", r["cases"][rid]["code"][:300].replace("\n", "\\n"))
    print(r["stats"])
