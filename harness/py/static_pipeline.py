#!/usr/bin/env python3
"""The static pipeline shared by C02, C03 (static half), C04, C05, C12, C15:
generate programs + configurations -> real rewriter (driver) -> uniform trees -> TLC trace
validation with TraceStatic.tla -> per-property verdicts.  Results are cached per
(driver binary, spec sources, seed, tier) so the six checks share one run."""
import hashlib, json, os, random, sys, time
import vlib, gen, norm


def add_fields(n):
    """give a TLC-enumerated tree the fields every recorded node has"""
    return {"t": n["t"], "v": n["v"], "a": n["a"], "id": 0, "n": 0, "l": 0, "k": 0, "el": 0, "ek": 0,
            "c": [add_fields(c) for c in n["c"]]}

FULL_CFG = {"localVarPrefix": "p", "telemetryVerbosity": "DEBUG", "csiMethods": [
    {"src": "plusOperator", "operator": True}, {"src": "tplOperator", "operator": True},
    {"src": "trim"}, {"src": "concat"}, {"src": "substring", "dst": "stringSubstring"},
    {"src": "replace"}, {"src": "slice"}, {"src": "toUpperCase"}, {"src": "padStart"}, {"src": "repeat"},
    {"src": "aloneMethod", "allowedWithoutCallee": True}, {"src": "encodeURI"}]}

SUBSET_CFGS = [
    {"localVarPrefix": "p", "telemetryVerbosity": "DEBUG", "csiMethods": [{"src": "plusOperator", "operator": True}]},
    {"localVarPrefix": "p", "telemetryVerbosity": "INFORMATION", "csiMethods": [{"src": "tplOperator", "operator": True, "dst": "tpl"}]},
    {"localVarPrefix": "p", "telemetryVerbosity": "OFF", "csiMethods": [{"src": "trim", "dst": "stringTrim"}, {"src": "concat"}]},
    {"localVarPrefix": "q", "csiMethods": [{"src": "plusOperator"}, {"src": "trim", "operator": True}, {"src": "concat", "dst": "cc"},
                                           {"src": "aloneMethod", "dst": "alone", "allowedWithoutCallee": True}]},
    {"localVarPrefix": "p", "csiMethods": []},
    # the same source names as the full configuration under other hook names (anything keyed by `src` shows here)
    {"localVarPrefix": "r", "telemetryVerbosity": "DEBUG", "csiMethods": [
        {"src": "plusOperator", "operator": True, "dst": "add"}, {"src": "tplOperator", "operator": True, "dst": "tpl2"},
        {"src": "trim", "dst": "trim2"}, {"src": "concat", "dst": "concat2"}, {"src": "substring", "dst": "otherSubstring"},
        {"src": "replace", "dst": "replace2"}, {"src": "slice", "dst": "slice2"}, {"src": "toUpperCase", "dst": "upper"},
        {"src": "padStart", "dst": "pad"}, {"src": "repeat", "dst": "repeat2"},
        {"src": "aloneMethod", "dst": "alone2", "allowedWithoutCallee": True}, {"src": "encodeURI", "dst": "enc"}]},
    # several methods behind one hook name, comments kept, chaining on, a prefix that is a non-ASCII identifier part
    {"localVarPrefix": "caf\u00e9", "comments": True, "chainSourceMap": True, "telemetryVerbosity": "DEBUG", "csiMethods": [
        {"src": "plusOperator", "operator": True}, {"src": "tplOperator", "operator": True}, {"src": "trim", "dst": "strOp"},
        {"src": "concat", "dst": "strOp"}, {"src": "substring", "dst": "strOp"}, {"src": "slice", "dst": "strOp"},
        {"src": "padEnd", "dst": "strOp"}, {"src": "replaceAll"}]},
]

WANT = ["in_ast", "out_ast", "effective_config", "events"]


MC_CFGS = {
    "full": {"localVarPrefix": "p", "telemetryVerbosity": "DEBUG", "csiMethods": [
        {"src": "plusOperator", "operator": True}, {"src": "tplOperator", "operator": True}, {"src": "trim"},
        {"src": "concat", "dst": "stringConcat"}, {"src": "aloneMethod", "allowedWithoutCallee": True}]},
    "plusonly": {"localVarPrefix": "p", "telemetryVerbosity": "INFORMATION", "csiMethods": [
        {"src": "plusOperator", "operator": True, "dst": "plus"}]},
    "methods": {"localVarPrefix": "p", "telemetryVerbosity": "DEBUG", "csiMethods": [{"src": "trim"}, {"src": "concat"}]},
}


def model_cases(tier):
    """programs enumerated by TLC from MC_Rewriter.tla (the design invariants are checked there on the model's
    prediction); each is printed to JavaScript and replayed into the real rewriter"""
    import printer
    out, stats = [], {}
    runs = [("full", 1), ("plusonly", 1), ("methods", 1)] if tier == "quick" else [("full", 2), ("plusonly", 2), ("methods", 2)]
    # TempLiveness.tla: the interleaving argument behind C06 -- safe under the code's numbering and storage
    # discipline, and (non-vacuity of the model) unsafe under either of the two deviations
    tl = vlib.run_model("TempLiveness", "MC_TempLiveness_ResetAtRoot_PerActivation.cfg", workers=4, timeout=600)
    stats["TempLiveness_ResetAtRoot_PerActivation"] = {"states": tl["states"], "distinct": tl["distinct"], "programs": 0,
                                                       "wall": round(tl["wall"], 1)}
    for bad in ("ResetInChild_PerActivation", "ResetAtRoot_Shared"):
        tb = vlib.run_model("TempLiveness", "MC_TempLiveness_%s.cfg" % bad, workers=4, timeout=600, expect_ok=False)
        if tb["ok"]:
            raise vlib.ToolError("TempLiveness.tla does not distinguish the %s deviation (vacuous model)" % bad)
    for cfgname, depth in runs:
        m = vlib.run_model("MC_Rewriter", "MC_Rewriter_%s_%d.cfg" % (cfgname, depth), workers=12, timeout=3000)
        stats["MC_Rewriter_%s_%d" % (cfgname, depth)] = {"states": m["states"], "distinct": m["distinct"],
                                                         "programs": len(m["replays"]), "wall": round(m["wall"], 1)}
        for k, tree in enumerate(m["replays"]):
            out.append({"name": "mc/%s/%d" % (cfgname, k), "code": printer.to_js(tree), "config": MC_CFGS[cfgname], "gen": tree})
    return out, stats


def cases(seed, tier):
    rng = random.Random(seed)
    out = []
    sysm = gen.systematic()
    for name, code in sysm:
        out.append({"name": "sys/full/" + name, "code": code, "config": FULL_CFG})
    # every seed op / context under reduced configurations (sampled in quick, all in thorough)
    for ci, cfg in enumerate(SUBSET_CFGS):
        pick = sysm if tier == "thorough" else rng.sample(sysm, 260)
        for name, code in pick:
            out.append({"name": "sys/cfg%d/%s" % (ci, name), "code": code, "config": cfg})
    for name, op in gen.LONG_OPS:
        for ctx, tmpl in (("fn_return", "function m() { return %s; }"), ("decl_init", "function m() { const v = %s; }")):
            out.append({"name": "sys/long/%s/%s" % (ctx, name), "code": tmpl % op, "config": FULL_CFG})
    # a byte order mark in front of the text: positions are counted in the text behind it
    for name, code in rng.sample(sysm, 40):
        out.append({"name": "sys/bom/" + name, "code": "\ufeff" + code, "config": FULL_CFG})
    for k, (pn, tmpl) in enumerate(LITERAL_PLACEMENTS[:6]):
        out.append({"name": "lit/bom/%s" % pn, "code": "\ufeff" + tmpl.replace("LIT", "B%d_" % k + "x" * 20), "config": FULL_CFG})
    for name, code in sysm:
        if "/lit_recv_pad_end" in name or "/lit_recv_replace_all" in name:
            out.append({"name": "sys/cfg5x/" + name, "code": code, "config": SUBSET_CFGS[-1]})
    # many distinct operations in ONE file (the debug breakdown has one entry per tag: 8, 16, 17, 33, 65 tags)
    for n in (6, 14, 15, 31, 63, 120):
        names = ["meth%d" % k for k in range(n)]
        cfg = {"localVarPrefix": "p", "telemetryVerbosity": "DEBUG", "csiMethods": [
            {"src": "plusOperator", "operator": True}, {"src": "tplOperator", "operator": True}] +
            [{"src": m, "dst": "h_" + m} if k % 3 else {"src": m} for k, m in enumerate(names)]}
        body = " ".join("r = a.%s(b);" % m for m in names) + " r = a + b; r += `t${a}`; " + " ".join("r = b.%s();" % m for m in names[::2])
        out.append({"name": "sys/manytags/%d" % n, "code": "function m(a, b) { let r; %s return r; }" % body, "config": cfg})
        out.append({"name": "sys/manytags-info/%d" % n, "code": "function m(a, b) { let r; %s return r; }" % body,
                    "config": dict(cfg, telemetryVerbosity="INFORMATION")})
    n_random = 1500 if tier == "quick" else 30000
    for i in range(n_random):
        reserved = "__datadog_p_%d" % rng.randint(0, 3) if rng.random() < 0.06 else None
        g = gen.Gen(rng, max_depth=rng.choice([3, 4, 5, 6]), multiline=rng.random() < 0.3, reserved=reserved,
                    long_literals=rng.random() < 0.3)
        code = g.program()
        pfx = "p"
        if reserved is None:
            x = rng.random()
            pfx = None if x < 0.15 else (rng.choice(["q", "caf\u00e9", "$x", "a1_b", "P", "\u4e2d"]) if x < 0.25 else "p")
        cfg = gen.rand_config(rng, force_full=rng.random() < 0.4, prefix=pfx)
        out.append({"name": "rnd/%d" % i, "code": code, "config": cfg})
    # totality (C13): token-level mutations of valid programs, token soup, odd file names
    toks = ["(", ")", "{", "}", "[", "]", ";", ",", ".", "?.", "...", "=>", "=", "+=", "+", "`", "${", "'", '"', "/",
            "/*", "*/", "//", "\n", "\\", "function", "class", "return", "yield", "await", "async", "new", "delete",
            "typeof", "import", "export", "let", "const", "a", "b", "f", "trim", "concat", "0", "1n", "0x", "\u2028",
            "#p", "@", "<!--", "-->", "?", ":", "??=", "**", "static", "get", "super", "this", "null"]
    files = ["/w/src/test.js", "test.js", "", "/", ".", "a/b/../c.js", "/w/\u00e9.js", "C:\\a\\b.js", "x" * 3000 + ".js",
             "/w/dir/", "file with space.mjs", "/w/a.cjs"]
    n_mut = 400 if tier == "quick" else 20000
    for i in range(n_mut):
        g = gen.Gen(rng, max_depth=rng.choice([2, 3, 4]))
        code = g.program()
        kind = rng.random()
        if kind < 0.7:
            # token-level mutation
            parts = code.split(" ")
            for _ in range(rng.choice([1, 1, 2, 3])):
                j = rng.randrange(len(parts))
                op = rng.random()
                if op < 0.3:
                    del parts[j]
                elif op < 0.5:
                    parts.insert(j, parts[j])
                elif op < 0.8:
                    parts.insert(j, rng.choice(toks))
                else:
                    k2 = rng.randrange(len(parts))
                    parts[j], parts[k2] = parts[k2], parts[j]
                if not parts:
                    parts = [";"]
            code = " ".join(parts)
            if rng.random() < 0.15:
                code = code[:rng.randrange(len(code) + 1)]
        elif kind < 0.9:
            code = " ".join(rng.choice(toks) for _ in range(rng.randint(1, 40)))
        else:
            code = "".join(chr(rng.choice([rng.randint(32, 126), rng.randint(0, 31), rng.randint(160, 0x2FFF)]))
                           for _ in range(rng.randint(0, 200)))
        out.append({"name": "fuzz/%d" % i, "code": code, "file": rng.choice(files), "mode": "total",
                    "config": gen.rand_config(rng, force_full=rng.random() < 0.5)})
    # string literals of every length class in every kind of placement (C14)
    for k, (pn, tmpl) in enumerate(LITERAL_PLACEMENTS):
        for n in (10, 11, 256, 257):
            for uni in (False, True):
                body = ("L%d_" % k + "x" * n)[:n]
                if uni:
                    body = body[:-2] + "\u00e9"      # n-1 characters, n bytes
                for litcfg in ({}, {"literals": False}):
                    cfg = dict(FULL_CFG, **litcfg)
                    out.append({"name": "lit/%s/%d%s" % (pn, n, "u" if uni else ""),
                                "code": tmpl.replace("LIT", body), "config": cfg})
    # real-world library files (npm's own sources, MIT / ISC / Artistic-2.0): cannot be executed meaningfully, so the
    # static deciders carry the weight here (C02, C03, C04, C08, C13, C14, C15) and the design model must predict them
    corpus = sorted(f for f in os.listdir(os.path.join(vlib.VERIF, "corpus")) if f.endswith(".js"))
    pick = corpus if tier == "thorough" else rng.sample(corpus, min(36, len(corpus)))
    for f in pick:
        code = open(os.path.join(vlib.VERIF, "corpus", f), encoding="utf-8", errors="replace").read()
        out.append({"name": "corpus/" + f, "code": code, "file": "/w/corpus/" + f,
                    "config": FULL_CFG if rng.random() < 0.7 else gen.rand_config(rng, force_full=False)})
    # reserved-prefix identifiers planted in every kind of position (C06: refuse or stay clear)
    for k, (pn, tmpl) in enumerate(RESERVED_PLACEMENTS):
        for idx in (0, 1, 7):
            nm = "__datadog_p_%d" % idx
            out.append({"name": "rsv/%s/%d" % (pn, idx), "code": tmpl.replace("RSV", nm), "config": FULL_CFG})
        for sn, spelling in RESERVED_SPELLINGS:
            out.append({"name": "rsv/%s/%s" % (pn, sn), "code": tmpl.replace("RSV", spelling % 1), "config": FULL_CFG})
    return out


LITERAL_PLACEMENTS = [
    ("operand", "function m(a) { return a + 'LIT'; }"),
    ("both_operands", "function m(a) { return 'LIT' + a + 'LIT'; }"),
    ("argument", "function m(a) { return a.concat('LIT', \"LIT\"); }"),
    ("initialiser", "function m(a) { const v = 'LIT', w = ('LIT'); let {q} = 'LIT'; return a + v; }"),
    ("object_value", "function m(a) { return { k: 'LIT', 'LIT': 'LIT', [a]: 'LIT', m() { return 'LIT'; } }; }"),
    ("top_level", "const t = 'LIT';\nfoo('LIT');"),
    ("nested_fn", "function m(a) { return function () { return () => a + 'LIT'; }; }"),
    ("require", "const r = require('LIT'); const r2 = require(a, 'LIT'); const r3 = o.require('LIT');"),
    ("regexp", "function m(a) { return [new RegExp('LIT'), new RegExp(a, 'LIT'), new RegExp, RegExp('LIT'), new RegExp(...a, 'LIT')]; }"),
    ("multiline", "function m(a) {\n  const v = a +\n      'LIT';\n\n  return `t${a}` + \"LIT\";\n}"),
    ("unmodified", "function m(a) { foo('LIT'); return a; }"),
    ("template_and_tag", "function m(a) { return `LIT${a}` + tag`LIT` + 'LIT'; }"),
    ("import_source", "import z from 'LIT'; export const v = 'LIT';"),
    ("class_members", "class C { static s = 'LIT'; 'LIT'() { return 'LIT'; } f = a + 'LIT'; }"),
    ("directive_like", "function m(a) { 'LIT'; return a + 1; }"),
    ("after_unicode", "function m(a) { const s = '\u00e9\u00e9', v = a + 'LIT'; return v; }"),
    ("crlf", "function m(a) {\r\n  return a +\r\n    'LIT';\r\n}"),
    ("hook_namespace_call", "function m(a) { _ddiast.report(a, 'LIT'); return a + 'LIT'; }"),
    ("dynamic_import", "async function m(a) { const p = await import('LIT'); return import(a, { with: { type: 'LIT' } }); }"),
    ("pattern_default", "function m(o) { const { mode = 'LIT', [a + 'LIT']: k } = o; for (const { x = 'LIT' } of o) { k(x); } return mode; }"),
]

RESERVED_PLACEMENTS = [
    ("ref_in_block", "function m(a, b) { const c = a + b(); return RSV; }"),
    ("decl_in_block", "function m(a, b) { let RSV = 1; return a + b(); }"),
    ("param_nested_fn", "function m(a, b) { function n(RSV) { return a + RSV(); } }"),
    ("param_top_fn", "function m(RSV, a) { return a + m(); }"),
    ("param_method_top", "class C { m(RSV, a) { return a + this.m(); } }"),
    ("catch_param", "function m(a, b) { try { x(); } catch (RSV) { return a + b(); } }"),
    ("catch_param_top", "try { x(); } catch (RSV) { y = a + b(); }"),
    ("arrow_param", "function m(a, b) { return (RSV) => a + b(); }"),
    ("arrow_param_body_use", "function m(a, b) { return (RSV) => RSV + b(); }"),
    ("label", "function m(a, b) { RSV: for (;;) { v = a + b(); break RSV; } }"),
    ("fn_name", "function m(a, b) { function RSV() {} return a + b(); }"),
    ("class_name", "function m(a, b) { class RSV {} return a + b(); }"),
    ("delete_operand", "function m(a, b) { delete RSV.x; return a + b(); }"),
    ("tpl_literal_subst", "function m(a, b) { v = `${1}${RSV}`; return a + b(); }"),
    ("else_branch", "function m(a, b) { if (a) x(); else v = RSV; return a + b(); }"),
    ("member_prop", "function m(a, b) { return a.RSV + b(); }"),
    ("object_key", "function m(a, b) { return { RSV: 1 }.x + b(); }"),
    ("shorthand", "function m(a, b) { return { RSV }.x + b(); }"),
    ("outer_block", "function m(a, b) { let RSV = 2; { return a + b(); } }"),
    ("inner_block", "function m(a, b) { { RSV(); } return a + b(); }"),
    ("closure_ref", "function m(a, b) { const c = a + b(); return function () { return RSV; }; }"),
    ("top_level_let", "let RSV; function m(a, b) { return a + b(); }"),
    ("import_binding", "import RSV from 'm'; export function m(a, b) { return a + b(); }"),
    ("destructuring", "function m(a, b) { const { x: RSV } = a; return a + b(); }"),
    ("for_of_binding", "function m(a, b) { for (const RSV of a) { v = a + b(); } }"),
    ("no_temps_needed", "function m(a, b) { return RSV + a; }"),
    ("decl_then_optchain_block", "function m(a, o) { { const RSV = 1; r = a + g(RSV); } { return o?.name.trim(); } }"),
    ("ref_then_optchain", "function m(a, o) { const c = a + g(RSV); return o?.x.trim(); }"),
    ("concise_arrow_body", "function m(a, b) { const peek = () => RSV; const r = a() + b(); return [r, peek()]; }"),
    ("concise_arrow_body_arg", "function m(a, b) { const r = a() + b(); return [r].map((x) => RSV); }"),
    ("arrow_block_body", "function m(a, b) { const peek = () => { return RSV; }; return a() + b(); }"),
    ("typeof_operand", "function m(a, b) { return typeof RSV + a + b(); }"),
    ("class_field", "function m(a, b) { class C { f = RSV; } return a + b(); }"),
    ("default_param", "function m(a, b) { function n(x = RSV) { return x; } return a + b(); }"),
]

# the same name spelled with unicode escapes (the name is what counts, not its spelling in the text)
RESERVED_SPELLINGS = [("brace_escape", "__datadog\\u{5f}p_%d"), ("first_char", "\\u005f_datadog_p_%d"), ("digit", "__datadog_p_\\u003%d")]


_NORM_JOB = None


def _norm_one(i):
    reqs, resps, base = _NORM_JOB
    return vlib.static_record("r%d" % (base + i), reqs[i], resps[i])


def spec_hash():
    h = hashlib.sha256()
    for f in sorted(os.listdir(vlib.SPEC)):
        if f.endswith((".tla", ".cfg")):
            h.update(open(os.path.join(vlib.SPEC, f), "rb").read())
    for f in sorted(os.listdir(vlib.HERE)):
        if f.endswith(".py"):
            h.update(open(os.path.join(vlib.HERE, f), "rb").read())
    jsdir = os.path.join(vlib.HARNESS, "js")
    for f in sorted(os.listdir(jsdir)):
        if f.endswith(".js"):
            h.update(open(os.path.join(jsdir, f), "rb").read())
    return h.hexdigest()[:16]


def run(seed, tier, extra_cases=None, use_cache=True):
    """-> dict(verdicts={prop: [(rid, verdict, detail)]}, cases={rid: case}, stats)"""
    key = "static-%s-%s-%s-%s" % (vlib.driver_hash(), spec_hash(), seed, tier)
    cache = os.path.join(vlib.WORK, key + ".json")
    if use_cache and extra_cases is None and os.path.exists(cache):
        vlib.log("static pipeline: cached result", key)
        return json.load(open(cache))
    t0 = time.time()
    mstats = {}
    if extra_cases is not None:
        cs = extra_cases
    else:
        mc, mstats = model_cases(tier)          # TLC first (never concurrently with cargo / the driver pool)
        cs = cases(seed, tier) + mc
    # cases are processed in batches (driver -> normalise -> V8 -> ND-JSON chunk files on disk): a thorough run has
    # ~100 000 cases and the recorded trees of all of them do not have to be in memory at once
    import multiprocessing as mp
    global _NORM_JOB
    os.makedirs(vlib.WORK, exist_ok=True)
    nchunks = max(1, min(vlib.NCPU, len(cs) // 150))
    paths = [os.path.join(vlib.WORK, "trace-static-%d-%d.ndjson" % (os.getpid(), k)) for k in range(nchunks)]
    files = [open(pth, "w") for pth in paths]
    bycase = {}
    outcomes = {}
    nrecs = nv8 = 0
    td = tn = tv = 0.0
    BATCH = 12000
    for b0 in range(0, len(cs), BATCH):
        bcs = cs[b0:b0 + BATCH]
        ta = time.time()
        reqs = []
        for i, c in enumerate(bcs):
            rq = {"id": str(b0 + i), "code": c["code"], "file": c.get("file", "/w/src/test.js"),
                  "config": c["config"], "want": [] if c.get("mode") == "total" else WANT}
            if "reader" in c:
                rq["reader"] = c["reader"]
            reqs.append(rq)
        resps = vlib.run_requests(reqs, nproc=vlib.NCPU)
        tb = time.time()
        if any((r or {}).get("outcome") == "bad_request" for r in resps):
            raise vlib.ToolError("the driver could not decode a request (harness bug, not an observation)")
        # normalisation of the recorded trees is the Python-side bottleneck: spread it over the cores
        _NORM_JOB = (reqs, resps, b0)
        if len(bcs) > 400:
            with mp.get_context("fork").Pool(min(vlib.NCPU, 16)) as pool:
                allrecs = pool.map(_norm_one, range(len(bcs)), chunksize=64)
        else:
            allrecs = [_norm_one(i) for i in range(len(bcs))]
        _NORM_JOB = None
        recs = []
        v8jobs = []
        for i, (c, rq, rs) in enumerate(zip(bcs, reqs, resps)):
            rid = "r%d" % (b0 + i)
            outcomes[rs.get("outcome", "abort")] = outcomes.get(rs.get("outcome", "abort"), 0) + 1
            bycase[rid] = {"name": c["name"], "code": c["code"], "config": c["config"], "file": rq["file"],
                           "reader": c.get("reader"), "outcome": rs.get("outcome"),
                           "error": rs.get("error"), "content": rs.get("content"), "metrics": rs.get("metrics")}
            rec = allrecs[i]
            recs.append(rec)
            if "cfg" in rec:
                bycase[rid]["eff"] = rec["cfg"]
            if "gen" in c and rec.get("outcome") == "ok" and "in" in rec:
                rec["gen"] = norm.encode(add_fields(c["gen"]))
                rec["has_gen"] = True
            elif "in" in rec:
                rec["has_gen"] = False
            if rec.get("status") == "modified":
                kind = "module" if rec["kind_in"] == "Module" else "script"
                v8jobs.append({"id": rid + "/in", "kind": kind, "code": c["code"]})
                v8jobs.append({"id": rid + "/out", "kind": kind, "code": rs.get("content", "")})
        tc = time.time()
        v8 = vlib.run_node_jobs("syntax.js", v8jobs)
        for rec in recs:
            if rec.get("status") == "modified":
                a, b = v8.get(rec["rid"] + "/in"), v8.get(rec["rid"] + "/out")
                rec["v8_in"] = "skip" if a is None else ("ok" if a["ok"] else "err")
                rec["v8_out"] = "skip" if b is None else ("ok" if b["ok"] else "err")
                if b is not None and not b["ok"]:
                    bycase[rec["rid"]]["v8_error"] = b["error"]
        for k, rec in enumerate(recs):
            files[(nrecs + k) % nchunks].write(json.dumps(rec, ensure_ascii=True) + "\n")
        nrecs += len(recs)
        nv8 += len(v8jobs)
        te = time.time()
        td, tn, tv = td + (tb - ta), tn + (tc - tb), tv + (te - tc)
        del reqs, resps, allrecs, recs, v8, v8jobs
    for f in files:
        f.close()
    t3 = time.time()
    vlib.log("static pipeline: %d cases (outcomes %s); driver %.1fs normalise %.1fs v8 %.1fs (%d compiles)" %
             (len(cs), outcomes, td, tn, tv, nv8))
    verdicts, st = vlib.validate_trace_files("TraceStatic", "TraceStatic.cfg", paths, "static")
    t4 = time.time()
    vlib.log("static pipeline: TLC validated %d records in %.1fs" % (nrecs, t4 - t3))
    byprop = {}
    for rid, prop, v, detail in verdicts:
        byprop.setdefault(prop, []).append((rid, v, detail))
    bad0 = [(rid, d) for rid, v, d in byprop.get("L0", []) if v == "toolerror"]
    if bad0:
        raise vlib.ToolError("pipeline self-check failed: a TLC-enumerated tree does not parse back from its printed text: %s | %s"
                             % (bad0[0][1][:200], bycase[bad0[0][0]]["code"][:200]))
    res = {"verdicts": byprop, "cases": bycase, "stats": {
        "cases": len(cs), "records": nrecs, "outcomes": outcomes, "tlc_states": st["states"],
        "tlc_distinct": st["distinct"], "v8_compiles": nv8, "wall": t4 - t0, "models": mstats}}
    if extra_cases is None:
        os.makedirs(vlib.WORK, exist_ok=True)
        json.dump(res, open(cache, "w"))
    return res


if __name__ == "__main__":
    seed = int(os.environ.get("VERIF_SEED", "1"))
    tier = sys.argv[1] if len(sys.argv) > 1 else "quick"
    r = run(seed, tier, use_cache=False)
    for prop, vs in sorted(r["verdicts"].items()):
        cnt = {}
        for rid, v, d in vs:
            cnt[v] = cnt.get(v, 0) + 1
        print(prop, cnt)
        shown = 0
        for rid, v, d in vs:
            if v in ("reject", "dev") and shown < 12:
                shown += 1
                print("   ", v, rid, r["cases"][rid]["name"], d[:200])
                print("       ", r["cases"][rid]["code"][:300].replace("\n", "\\n"))
    print(r["stats"])
