#!/usr/bin/env python3
"""Uniform tree (as enumerated by TLC from MC_Rewriter.tla) -> JavaScript text.  Fully parenthesising
where the tree has ParenthesisExpression nodes and where a plain member/call sits on an optional chain
(a chain boundary); otherwise it prints operands as they are: the enumerated grammar only nests compound
operands under ParenthesisExpression.  The pipeline self-check Shape(parse(print(T))) = Shape(T) is
evaluated in TLA+ (TraceStatic L0)."""
import json


def p(n):
    t, v, c = n["t"], n["v"], n["c"]
    if t == "Identifier":
        return v
    if t == "StringLiteral":
        return json.dumps(v)
    if t == "NumericLiteral":
        f = float(v)
        return str(int(f)) if f == int(f) else repr(f)
    if t == "ParenthesisExpression":
        return "(" + p(c[0]) + ")"
    if t == "BinaryExpression":
        return p(c[0]) + " " + v + " " + p(c[1])
    if t == "AssignmentExpression":
        return p(c[0]) + " " + v + " " + p(c[1])
    if t == "MemberExpression":
        obj = p(c[0])
        if c[0]["t"] in ("OptionalChainingExpression", "NumericLiteral"):
            obj = "(" + obj + ")"          # a plain link over a chain: the chain ends here; (1).m
        if c[1]["t"] == "Computed":
            return obj + "[" + p(c[1]["c"][0]) + "]"
        return obj + "." + c[1]["v"]
    if t == "CallExpression":
        callee = p(c[0])
        if c[0]["t"] == "OptionalChainingExpression":
            callee = "(" + callee + ")"
        return callee + "(" + ", ".join(p(a) for a in c[1]["c"]) + ")"
    if t == "_arg":
        return ("..." if n["a"] == "spread" else "") + p(c[0])
    if t == "OptionalChainingExpression":
        b = c[0]
        opt = n["a"] == "optional=true"
        if b["t"] == "MemberExpression":
            if b["c"][1]["t"] == "Computed":
                return p(b["c"][0]) + ("?.[" if opt else "[") + p(b["c"][1]["c"][0]) + "]"
            o = p(b["c"][0])
            if b["c"][0]["t"] == "NumericLiteral":
                o = "(" + o + ")"
            return o + ("?." if opt else ".") + b["c"][1]["v"]
        return p(b["c"][0]) + ("?.(" if opt else "(") + ", ".join(p(a) for a in b["c"][1]["c"]) + ")"
    if t == "TemplateLiteral":
        exprs, quasis = c[0]["c"], c[1]["c"]
        s = "`"
        for i, q in enumerate(quasis):
            s += q["v"]
            if i < len(exprs):
                s += "${" + p(exprs[i]) + "}"
        return s + "`"
    if t == "ConditionalExpression":
        return p(c[0]) + " ? " + p(c[1]) + " : " + p(c[2])
    if t == "ArrayExpression":
        return "[" + ", ".join(p(a) for a in c[0]["c"]) + "]"
    if t == "SequenceExpression":
        return ", ".join(p(a) for a in c[0]["c"])
    if t == "ArrowFunctionExpression":
        body = p(c[1])
        if c[1]["t"] not in ("BlockStatement",) and body.startswith("{"):
            body = "(" + body + ")"
        return "() => " + body
    if t == "UnaryExpression":
        return v + " " + p(c[0])
    # statements
    if t == "Script":
        return "\n".join(p(s) for s in c[0]["c"]) + "\n"
    if t == "ExpressionStatement":
        e = p(c[0])
        if e.startswith(("{", "function", "class")):
            e = "(" + e + ")"
        return e + ";"
    if t == "ReturnStatement":
        return "return " + p(c[0]) + ";"
    if t == "BlockStatement":
        return "{ " + " ".join(p(s) for s in c[0]["c"]) + " }"
    if t == "FunctionDeclaration":
        return "function " + p(c[0]) + "(" + ", ".join(p(x) for x in c[1]["c"]) + ") " + p(c[2])
    if t == "IfStatement":
        s = "if (" + p(c[0]) + ") " + p(c[1])
        if c[2]["t"] != "Null":
            s += " else " + p(c[2])
        return s
    if t == "VariableDeclaration":
        return v + " " + ", ".join(p(d) for d in c[0]["c"]) + ";"
    if t == "VariableDeclarator":
        return p(c[0]) + ("" if c[1]["t"] == "Null" else " = " + p(c[1]))
    raise ValueError("printer: unsupported node kind " + t)


def to_js(tree):
    return p(tree)
