#!/usr/bin/env python3
"""Normaliser: swc serde JSON AST  ->  uniform trees read by the TLA+ deciders.

Uniform node = {"t": kind, "v": primary scalar (string), "a": other scalar attributes (canonical
string), "c": [children...], "id": preorder index, and optionally "l"/"k"/"el"/"ek": 1-based line and
0-based column (UTF-16 units) of the start / end of the node's span in its own text}.

Rules (total over every swc node kind):
  * every JSON object is a node; objects without "type" get a synthetic kind:
      {spread, expression}            -> "_arg"   (a = "spread" when spread is present)
      Function payload of ClassMethod  -> "_Function"
  * keys that only exist for TypeScript / decorators are dropped (the rewriter parses plain JS);
  * scalar keys go to v (operator / value / kind / raw ...) or to a ("k=v;" in key order);
  * object-valued keys become children in field order (= swc visiting order), null -> kind "Null";
  * list-valued keys become one child of kind "_L" whose children are the elements (null -> "Null");
  * span-valued keys other than "span" (spread / rest markers) become boolean attributes.
Lexical facts TLC cannot compute on strings are pre-computed here, deterministically:
  * Identifier: a = "rp" when the name starts with the reserved prefix `__datadog_<prefix>_`;
  * StringLiteral: a = "b=<utf8 byte length>" ; NumericLiteral: v = repr(float).
"""
import json

TS_DROP = {
    "typeAnnotation", "typeArguments", "typeParameters", "returnType", "decorators", "declare",
    "definite", "ctxt", "superTypeParams", "typeParams", "implements", "accessibility", "isAbstract",
    "isOptional", "isOverride", "readonly", "typeOnly", "isTypeOnly",
}
SCALAR_NULL_KEYS = {"interpreter", "raw", "cooked"}
V_KEYS = ("operator", "value", "kind")


def is_span(d):
    return isinstance(d, dict) and "start" in d and "end" in d and "type" not in d and len(d) <= 3


class LineIndex:
    """byte offset (swc BytePos, 1-based, into UTF-8 text) -> (1-based line, 0-based UTF-16 column)"""

    def __init__(self, text, base=1):
        self.base = base
        if text.startswith("\ufeff"):
            # a byte order mark is not part of the text positions are counted in (swc strips it before parsing, Node
            # before compiling, editors do not give it a column)
            text = text[1:]
        self.b = text.encode("utf-8")
        self.starts = [0]
        i = 0
        b = self.b
        n = len(b)
        while i < n:
            c = b[i]
            # a line of the input FILE ends at a line feed (so does a CR LF pair). A lone carriage return and
            # U+2028 / U+2029 are line terminators of the ECMAScript grammar but not of files as editors, diff
            # tools and source maps count them; the properties speak of lines "in the input file"
            if c == 0x0A:
                self.starts.append(i + 1)
            i += 1

    def pos(self, bytepos):
        off = bytepos - self.base
        if off < 0:
            off = 0
        import bisect
        li = bisect.bisect_right(self.starts, off) - 1
        seg = self.b[self.starts[li]:off]
        try:
            s = seg.decode("utf-8")
        except UnicodeDecodeError:
            s = seg.decode("utf-8", "ignore")
        col = sum(2 if ord(ch) > 0xFFFF else 1 for ch in s)
        return (li + 1, col)


def fmt_scalar(x):
    if x is True:
        return "true"
    if x is False:
        return "false"
    if x is None:
        return "null"
    if isinstance(x, float):
        return repr(x)
    if isinstance(x, list):
        return json.dumps(x)
    return str(x)


class Normaliser:
    def __init__(self, reserved_prefix=None, line_index=None):
        self.rp = reserved_prefix
        self.li = line_index
        self.n = 0

    def blank(self, t, v=""):
        self.n += 1
        node = {"t": t, "v": v, "a": "", "c": [], "id": self.n, "n": 0}
        if self.li is not None:
            node["l"] = node["k"] = node["el"] = node["ek"] = 0
        return node

    def null(self):
        return self.blank("Null")

    def lst(self, items):
        node = self.blank("_L")
        for it in items:
            node["c"].append(self.null() if it is None else self.node(it))
        return node

    def node(self, d):
        if not isinstance(d, dict):
            # bare scalar in child position (does not happen in swc ASTs); keep total
            return self.blank("_S", fmt_scalar(d))
        t = d.get("type")
        if t is None:
            if "expression" in d and "spread" in d:
                t = "_arg"
            elif "params" in d and "body" in d:
                t = "_Function"
            else:
                t = "_" + "_".join(sorted(k for k in d if k != "span"))[:40]
        self.n += 1
        node = {"t": t, "v": "", "a": "", "c": [], "id": self.n, "n": 0}
        if self.li is not None:
            node["l"] = node["k"] = node["el"] = node["ek"] = 0
            if isinstance(d.get("span"), dict):
                sp = d["span"]
                l, k = self.li.pos(sp["start"])
                el, ek = self.li.pos(sp["end"])
                node["l"], node["k"], node["el"], node["ek"] = l, k, el, ek
        attrs = []
        vset = False
        for key, val in d.items():
            if key in ("type", "span") or key in TS_DROP:
                continue
            if key == "optional" and t != "OptionalChainingExpression":
                continue
            if t == "TemplateElement" and key in ("cooked", "tail"):
                continue
            if t in ("StringLiteral", "NumericLiteral", "BigIntLiteral") and key == "raw":
                continue
            if is_span(val) or (val is None and key in ("spread", "rest") and t in ("_arg",)):
                if val is not None:
                    attrs.append(key)
                continue
            if isinstance(val, dict):
                node["c"].append(self.node(val))
            elif isinstance(val, list) and not (t == "BigIntLiteral" and key == "value"):
                node["c"].append(self.lst(val))
            elif val is None and key not in SCALAR_NULL_KEYS:
                node["c"].append(self.null())
            else:
                if not vset and (key in V_KEYS or (t == "TemplateElement" and key == "raw")
                                 or (t == "RegExpLiteral" and key == "pattern")):
                    node["v"] = fmt_scalar(val)
                    vset = True
                else:
                    attrs.append("%s=%s" % (key, fmt_scalar(val)))
        if t == "Identifier" and "ctxt" not in d:
            attrs.append("name")      # an IdentName: property / key name, not a variable occurrence
        if t == "Identifier" and self.rp and node["v"].startswith(self.rp):
            attrs.append("rp")
        if t == "StringLiteral":
            node["n"] = len(node["v"].encode("utf-8", "surrogatepass"))   # byte length (C14 bounds)
        node["a"] = ";".join(attrs)
        return node


def normalise(ast, reserved_prefix=None, text=None):
    """ast: swc JSON (dict). reserved_prefix: e.g. '__datadog_p_'. text: source text for positions."""
    li = LineIndex(text) if text is not None else None
    return Normaliser(reserved_prefix, li).node(ast)


def depth(n):
    d = 0
    stack = [(n, 1)]
    while stack:
        x, k = stack.pop()
        if k > d:
            d = k
        for c in x["c"]:
            stack.append((c, k + 1))
    return d


def flatten(n):
    """flat encoding for trees too deep for the JSON reader of the TLA+ Json module (nesting limit 255):
    {"nodes": [{t, v, a, id, k: [1-based child indices], ...}], "root": 1}; TreeOf() in JsAst.tla rebuilds it"""
    nodes = []

    def go(x):
        i = len(nodes)
        rec = {k: v for k, v in x.items() if k != "c"}
        for f in ("l", "k", "el", "ek"):
            rec.setdefault(f, 0)
        rec["kids"] = []
        nodes.append(rec)
        for c in x["c"]:
            rec["kids"].append(go(c) + 1)
        return i
    import sys
    sys.setrecursionlimit(max(sys.getrecursionlimit(), 20000))
    go(n)
    return {"nodes": nodes, "root": 1}


def encode(n, limit=100):
    return flatten(n) if depth(n) > limit else n


def size(n):
    return 1 + sum(size(c) for c in n["c"])


def ident_names(n, acc=None):
    if acc is None:
        acc = set()
    if n["t"] in ("Identifier", "PrivateName"):
        acc.add(n["v"])
    for c in n["c"]:
        ident_names(c, acc)
    return acc


if __name__ == "__main__":
    import sys
    ast = json.load(sys.stdin)
    print(json.dumps(normalise(ast), indent=1)[:4000])
