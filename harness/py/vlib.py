#!/usr/bin/env python3
"""Shared machinery of the checks: build the driver from /repo's working tree, run rewrite
requests through it, turn responses into trace records, run TLC on traces / models, aggregate
verdicts, write evidence."""
import base64, hashlib, json, os, re, subprocess, sys, time, threading, queue

HERE = os.path.dirname(os.path.abspath(__file__))
HARNESS = os.path.dirname(HERE)
VERIF = os.path.dirname(HARNESS)
SPEC = os.path.join(VERIF, "spec")
WORK = os.path.join(VERIF, "work")
REPLAYS = os.path.join(VERIF, "replays")
EVIDENCE = os.path.join(VERIF, "evidence")
REPO = os.environ.get("VERIF_REPO", "/repo")
DRIVER = os.path.join(HARNESS, "target", "release", "driver")
NODE = "/usr/bin/node"
sys.path.insert(0, HERE)
import norm  # noqa: E402

NCPU = os.cpu_count() or 4


class ToolError(Exception):
    pass


def log(*a):
    print("[verif]", *a, file=sys.stderr, flush=True)


# --------------------------------------------------------------------------- build
def build():
    """(re)build the driver against the current working tree of /repo, hooks enabled."""
    t0 = time.time()
    subprocess.run([sys.executable, os.path.join(HERE, "mkrwlib.py")], check=True)
    env = dict(os.environ, CARGO_NET_OFFLINE="true")
    p = subprocess.run(["cargo", "build", "--release", "-p", "driver", "--offline"], cwd=HARNESS,
                       env=env, capture_output=True, text=True)
    if p.returncode != 0:
        sys.stderr.write(p.stderr[-4000:])
        raise ToolError("cargo build of the driver failed")
    log("driver built in %.1fs" % (time.time() - t0))
    return DRIVER


def driver_hash():
    h = hashlib.sha256()
    with open(DRIVER, "rb") as f:
        h.update(f.read())
    return h.hexdigest()[:16]


# --------------------------------------------------------------------------- driver
class DriverProc:
    def __init__(self):
        self.p = subprocess.Popen([DRIVER], stdin=subprocess.PIPE, stdout=subprocess.PIPE,
                                  stderr=subprocess.DEVNULL, text=True, bufsize=1)

    def call(self, req, timeout=20.0):
        """one request -> one response; a hang or crash of the code under test is data"""
        try:
            self.p.stdin.write(json.dumps(req) + "\n")
            self.p.stdin.flush()
        except (BrokenPipeError, OSError):
            return {"id": req.get("id"), "outcome": "abort", "error": "driver process died before the request"}
        res = {}

        def rd():
            try:
                res["line"] = self.p.stdout.readline()
            except Exception as e:  # noqa
                res["line"] = ""
        th = threading.Thread(target=rd, daemon=True)
        th.start()
        th.join(timeout)
        if th.is_alive():
            self.p.kill()
            return {"id": req.get("id"), "outcome": "hang", "error": "no answer within %.0fs" % timeout}
        line = res.get("line", "")
        if not line:
            rc = self.p.poll()
            return {"id": req.get("id"), "outcome": "abort", "error": "driver process exited (%s)" % rc}
        return json.loads(line)

    def alive(self):
        return self.p.poll() is None

    def close(self):
        try:
            self.p.stdin.close()
            self.p.wait(timeout=5)
        except Exception:
            self.p.kill()


def run_requests(reqs, nproc=None, timeout=20.0, sequential_groups=False):
    """Run independent requests through a pool of driver processes; keeps order.
    A process that hung or died is replaced; the offending request is reported as hang/abort."""
    nproc = nproc or min(NCPU, max(1, len(reqs) // 50 + 1))
    out = [None] * len(reqs)
    q = queue.Queue()
    for i, r in enumerate(reqs):
        q.put((i, r))

    def worker():
        d = DriverProc()
        while True:
            try:
                i, r = q.get_nowait()
            except queue.Empty:
                break
            resp = d.call(r, timeout)
            out[i] = resp
            if resp.get("outcome") in ("hang", "abort") or not d.alive():
                d.close()
                d = DriverProc()
        d.close()
    ths = [threading.Thread(target=worker) for _ in range(nproc)]
    for t in ths:
        t.start()
    for t in ths:
        t.join()
    return out


def run_history(steps, timeout=20.0):
    """Run a sequence of requests in ONE driver process (instances persist)."""
    d = DriverProc()
    out = []
    for r in steps:
        out.append(d.call(r, timeout))
        if not d.alive():
            break
    d.close()
    return out


# --------------------------------------------------------------------------- node helpers
def run_node_jobs(script, jobs, nproc=None, timeout=600, node_args=("--experimental-vm-modules", "--no-warnings")):
    """Run NDJSON jobs through harness/js/<script> in parallel chunks; returns results by job id."""
    if not jobs:
        return {}
    nproc = nproc or min(NCPU, max(1, len(jobs) // 200 + 1))
    parts = [jobs[i::nproc] for i in range(nproc)]
    out = {}
    lock = threading.Lock()

    def go(part):
        if not part:
            return
        p = subprocess.run([NODE, *node_args, os.path.join(HARNESS, "js", script)],
                           input="\n".join(json.dumps(j) for j in part) + "\n",
                           capture_output=True, text=True, timeout=timeout)
        for line in p.stdout.splitlines():
            if line.strip():
                try:
                    r = json.loads(line)
                except ValueError:
                    continue
                with lock:
                    out[r.get("id")] = r
    ths = [threading.Thread(target=go, args=(pt,)) for pt in parts]
    for t in ths:
        t.start()
    for t in ths:
        t.join()
    return out


# --------------------------------------------------------------------------- content helpers
TRAILER = "//# sourceMappingURL=data:application/json;base64,"


def split_trailer(content):
    """-> (body, map_json_text or None, n_trailers). Independent of the code under test."""
    lines = content.split("\n")
    idx = [i for i, ln in enumerate(lines) if ln.startswith(TRAILER)]
    if not idx:
        return content, None, 0
    last = idx[-1]
    try:
        m = base64.b64decode(lines[last][len(TRAILER):], validate=True).decode("utf-8")
    except Exception:
        m = None
    return "\n".join(lines[:last]), m, len(idx)


B64 = "ABCDEFGHIJKLMNOPQRSTUVWXYZabcdefghijklmnopqrstuvwxyz0123456789+/"
B64V = {c: i for i, c in enumerate(B64)}


def decode_mappings(mappings):
    """independent VLQ decoder -> list of (genLine0, genCol0, srcIdx|None, srcLine0, srcCol0, nameIdx|None)"""
    out = []
    gl = 0
    src = sl = sc = nm = 0
    for line in mappings.split(";"):
        gc = 0
        if line:
            for seg in line.split(","):
                if not seg:
                    continue
                vals = []
                shift = value = 0
                for ch in seg:
                    d = B64V[ch]
                    value |= (d & 31) << shift
                    if d & 32:
                        shift += 5
                    else:
                        vals.append(-(value >> 1) if value & 1 else value >> 1)
                        shift = value = 0
                gc += vals[0]
                if len(vals) >= 4:
                    src += vals[1]
                    sl += vals[2]
                    sc += vals[3]
                    n = None
                    if len(vals) >= 5:
                        nm += vals[4]
                        n = nm
                    out.append((gl, gc, src, sl, sc, n))
                else:
                    out.append((gl, gc, None, 0, 0, None))
        gl += 1
    return out


# --------------------------------------------------------------------------- records
NULLNODE = {"t": "Null", "v": "", "a": "", "c": [], "id": 0, "n": 0, "l": 0, "k": 0, "el": 0, "ek": 0}


def cfg_for_spec(eff):
    methods = [{"src": m["src"], "dst": m["dst"], "bare": bool(m["allowedWithoutCallee"])}
               for m in eff["csiMethods"] if not m["operator"]]
    return {
        "plus": eff.get("plusOperator") or "",
        "tpl": eff.get("tplOperator") or "",
        "methods": methods,
        "alldsts": [m["dst"] for m in eff["csiMethods"]],
        "verbosity": eff["telemetryVerbosity"],
        "prefix": eff["localVarPrefix"],
        "literals": bool(eff["literals"]),
        "chain": bool(eff["chainSourceMap"]),
        "comments": bool(eff["comments"]),
    }


def raw_for_spec(raw):
    """the raw configuration as a record for Config.tla (omitted options stay visible as such)"""
    raw = raw if isinstance(raw, dict) else {}

    def b(k):
        return "omitted" if k not in raw or raw[k] is None else ("true" if raw[k] else "false")
    ms = raw.get("csiMethods")
    return {
        "chain": b("chainSourceMap"), "comments": b("comments"), "literals": b("literals"),
        "prefix_given": raw.get("localVarPrefix") is not None, "prefix": str(raw.get("localVarPrefix") or ""),
        "verbosity_given": raw.get("telemetryVerbosity") is not None,
        "verbosity_upper": str(raw.get("telemetryVerbosity") or "").upper(),
        "methods_given": ms is not None,
        "methods": [{"src": m["src"], "dst_given": m.get("dst") is not None, "dst": str(m.get("dst") or ""),
                     "operator": "omitted" if m.get("operator") is None else ("true" if m["operator"] else "false"),
                     "awc": "omitted" if m.get("allowedWithoutCallee") is None else ("true" if m["allowedWithoutCallee"] else "false")}
                    for m in (ms or [])],
    }


def static_record(rid, req, resp, with_pos=True):
    """trace record for TraceStatic.tla from one driver response (needs in_ast, out_ast, effective_config)"""
    rec = {"rid": rid, "outcome": resp.get("outcome", "abort"), "error": str(resp.get("error") or ""), "refused": False}
    if rec["outcome"] == "err" and resp.get("in_ast") is not None and "effective_config" in resp:
        # a refused rewrite of a parsable input: the design model has to predict the refusal
        eff = resp["effective_config"]
        rec["refused"] = True
        rec["has_events"] = "events" in resp
        rec["events"] = [{"ev": e["ev"], "a": int(e["a"]), "b": int(e["b"]), "s": e["s"]} for e in resp.get("events", [])]
        rec["cfg"] = cfg_for_spec(eff)
        rec["in"] = norm.encode(norm.normalise(resp["in_ast"], "__datadog_%s_" % eff["localVarPrefix"], None))
    if rec["outcome"] != "ok":
        return rec
    if "in_ast" not in resp:
        rec["outcome"] = "ok_total"      # recorded for totality only (no trees requested)
        return rec
    eff = resp["effective_config"]
    cfg = cfg_for_spec(eff)
    rp = "__datadog_%s_" % eff["localVarPrefix"]
    code = req["code"]
    content = resp.get("content", "")
    metrics = resp.get("metrics") or {}
    status = metrics.get("status", "")
    if resp.get("in_ast") is None:
        rec["outcome"] = "noparse"
        return rec
    rec["in"] = norm.encode(norm.normalise(resp["in_ast"], rp, code if with_pos else None))
    if content and resp.get("out_ast") is not None:
        rec["out"] = norm.encode(norm.normalise(resp["out_ast"], rp, content if with_pos else None))
    else:
        rec["out"] = dict(NULLNODE)
    # C08 observations: does the rewriter's own parser accept the output, and as which kind
    rec["swc_out_ok"] = not (content and resp.get("out_ast") is None)
    rec["kind_in"] = resp["in_ast"].get("type", "")
    rec["kind_out"] = (resp.get("out_ast") or {}).get("type", "") if content else ""
    rec["v8_in"] = "skip"
    rec["v8_out"] = "skip"
    body, mp, ntr = split_trailer(content)
    dbg = metrics.get("propagationDebug")
    rec.update({
        "status": status, "mstatus": status, "mfile_ok": metrics.get("file") == req["file"],
        "cfg": cfg, "content_empty": content == "", "has_trailer": ntr >= 1,
        "has_prologue": "typeof _ddiast === 'undefined'" in content or 'typeof _ddiast === "undefined"' in content,
        "count": int(metrics.get("instrumentedPropagation", 0)),
        "has_debug": dbg is not None,
        "debug": [{"tag": k, "n": int(v)} for k, v in sorted((dbg or {}).items())],
        "in_mentions_ns": "_ddiast" in code,
        "raw": raw_for_spec(req.get("config")),
        # the traversal events recorded by the cfg-guarded hooks (one per critical section of the visitor)
        "has_events": "events" in resp,
        "events": [{"ev": e["ev"], "a": int(e["a"]), "b": int(e["b"]), "s": e["s"]} for e in resp.get("events", [])],
        "prefix_six_lower": bool(re.fullmatch(r"[a-z]{6}", eff["localVarPrefix"])),
        # C14: the literal report, flattened to one entry per reported location
        "has_literals": resp.get("literals") is not None,
        "literal_values": [x["value"] for x in (resp.get("literals") or {}).get("literals", [])],
        "literal_locs": [{"value": x["value"], "ident": loc.get("ident") or "", "has_ident": loc.get("ident") is not None,
                          "line": int(loc["line"]), "col": int(loc["column"])}
                         for x in (resp.get("literals") or {}).get("literals", []) for loc in x["locations"]],
        "literals_file_ok": (resp.get("literals") or {}).get("file", req["file"]) == req["file"],
    })
    return rec


# --------------------------------------------------------------------------- TLC
VERDICT_RE = re.compile(r'^<<"VERDICT", (.*)>>$')


def parse_tla_value_strings(s):
    return re.findall(r'"((?:[^"\\]|\\.)*)"', s)


def run_tlc(module, cfg, env=None, workers=1, timeout=1800, extra=None, metadir=None, xmx="4g", xss=True):
    """Run TLC on spec/<module>.tla with spec/<cfg>. Returns dict(stdout, rc, states, distinct, wall)."""
    os.makedirs(WORK, exist_ok=True)
    md = metadir or os.path.join(WORK, "tlc-%s-%d-%d" % (module, os.getpid(), int(time.time() * 1000) % 100000))
    e = dict(os.environ)
    jopts = "-Xmx%s" % xmx
    if xss:
        jopts += " -Xss1g -Dtlc2.tool.queue.IStateQueue=StateDeque"
    else:
        # the recursive operators of the deciders (Er, Match, Eval, ..) go deep on the larger enumerated programs:
        # worker threads get a big stack (an intermittent StackOverflowError otherwise)
        jopts += " -Xss512m"
    e["JAVA_TOOL_OPTIONS"] = jopts
    if env:
        e.update(env)
    cmd = ["timeout", str(timeout), "tlc", "-workers", str(workers), "-metadir", md, "-cleanup",
           "-noGenerateSpecTE", "-config", cfg]
    if extra:
        cmd += extra
    cmd.append(module + ".tla")
    t0 = time.time()
    p = subprocess.run(cmd, cwd=SPEC, env=e, capture_output=True, text=True)
    wall = time.time() - t0
    out = p.stdout
    subprocess.run(["rm", "-rf", md])
    res = {"stdout": out, "rc": p.returncode, "wall": wall, "stderr": p.stderr}
    m = re.search(r"(\d+) states generated, (\d+) distinct states found", out)
    if m:
        res["states"], res["distinct"] = int(m.group(1)), int(m.group(2))
    return res


def tlc_verdicts(stdout):
    """-> list of (rid, prop, verdict, detail_text)"""
    out = []
    for line in stdout.splitlines():
        line = line.strip()
        if line.startswith('"VERDICT|') and line.endswith('"'):
            parts = line[1:-1].split("|", 4)
            if len(parts) == 5:
                out.append((parts[1], parts[2], parts[3], parts[4].replace('\\"', '"')))
    return out


def validate_trace_files(module, cfgfile, paths, tag, timeout=3600):
    """TLC trace validation of ND-JSON files already on disk (one TLC process per file, in parallel)."""
    results = [None] * len(paths)

    def go(k):
        results[k] = run_tlc(module, cfgfile, env={"TRACE": paths[k]}, timeout=timeout,
                             metadir=os.path.join(WORK, "md-%s-%d-%d" % (tag, os.getpid(), k)))
    ths = [threading.Thread(target=go, args=(k,)) for k in range(len(paths))]
    for t in ths:
        t.start()
    for t in ths:
        t.join()
    verdicts = []
    states = distinct = 0
    for k, r in enumerate(results):
        ok = "Model checking completed. No error has been found." in r["stdout"]
        if not ok:
            tail = "\n".join(r["stdout"].splitlines()[-40:])
            sys.stderr.write(tail + "\n" + r["stderr"][-2000:] + "\n")
            raise ToolError("TLC did not accept/consume trace chunk %s (rc=%s)" % (paths[k], r["rc"]))
        verdicts += tlc_verdicts(r["stdout"])
        states += r.get("states", 0)
        distinct += r.get("distinct", 0)
        os.unlink(paths[k])
    return verdicts, {"states": states, "distinct": distinct}


def validate_trace(module, cfgfile, records, tag, chunks=None, timeout=1800):
    """Write records as ND-JSON, run TLC trace validation (split in parallel chunks), return verdicts.
    Raises ToolError if TLC did not consume every record."""
    os.makedirs(WORK, exist_ok=True)
    chunks = chunks or max(1, min(NCPU, len(records) // 150))
    parts = [records[i::chunks] for i in range(chunks)]
    results = [None] * chunks

    def go(k):
        path = os.path.join(WORK, "trace-%s-%d-%d.ndjson" % (tag, os.getpid(), k))
        with open(path, "w") as f:
            for r in parts[k]:
                f.write(json.dumps(r, ensure_ascii=True) + "\n")
        results[k] = run_tlc(module, cfgfile, env={"TRACE": path}, timeout=timeout,
                             metadir=os.path.join(WORK, "md-%s-%d-%d" % (tag, os.getpid(), k)))
        results[k]["path"] = path
    ths = [threading.Thread(target=go, args=(k,)) for k in range(chunks)]
    for t in ths:
        t.start()
    for t in ths:
        t.join()
    verdicts = []
    states = distinct = 0
    for k, r in enumerate(results):
        if not parts[k]:
            continue
        ok = "Model checking completed. No error has been found." in r["stdout"]
        if not ok:
            tail = "\n".join(r["stdout"].splitlines()[-40:])
            sys.stderr.write(tail + "\n" + r["stderr"][-2000:] + "\n")
            raise ToolError("TLC did not accept/consume trace chunk %s (rc=%s)" % (r["path"], r["rc"]))
        verdicts += tlc_verdicts(r["stdout"])
        states += r.get("states", 0)
        distinct += r.get("distinct", 0)
        os.unlink(r["path"])
    return verdicts, {"states": states, "distinct": distinct}


def run_model(module, cfg, workers=8, timeout=1800, expect_ok=True, xmx="8g"):
    """Model-check spec/<module>.tla with spec/<cfg>. Returns dict(states, distinct, replays=[json objects], wall).
    Raises ToolError when TLC reports an error (a design-model counterexample is a tool-level event here: it has
    to be replayed into the real code before it means anything about the implementation)."""
    r = run_tlc(module, cfg, workers=workers, timeout=timeout, xmx=xmx, xss=False)
    out = r["stdout"]
    ok = "Model checking completed. No error has been found." in out
    replays = []
    for line in out.splitlines():
        line = line.strip()
        if line.startswith('"REPLAY|') and line.endswith('"'):
            try:
                replays.append(json.loads(json.loads(line)[len("REPLAY|"):]))
            except ValueError:
                pass
    if expect_ok and not ok:
        sys.stderr.write("\n".join(out.splitlines()[-40:]) + "\n")
        raise ToolError("TLC reported an error on design model %s (%s)" % (module, cfg))
    return {"ok": ok, "states": r.get("states", 0), "distinct": r.get("distinct", 0), "replays": replays,
            "wall": r["wall"], "stdout": out}


# --------------------------------------------------------------------------- findings / evidence
def load_known():
    p = os.path.join(VERIF, "KNOWN_FINDINGS.json")
    if not os.path.exists(p):
        return {"findings": [], "fixed": []}
    return json.load(open(p))


def write_replay(prop, payload):
    os.makedirs(REPLAYS, exist_ok=True)
    h = hashlib.sha256(json.dumps(payload, sort_keys=True).encode()).hexdigest()[:12]
    path = os.path.join(REPLAYS, "%s-%s.json" % (prop, h))
    with open(path, "w") as f:
        json.dump(payload, f, indent=1)
    return path


def write_evidence(prop, tier, seed, level, coverage, wall, violations, assumptions=None):
    os.makedirs(EVIDENCE, exist_ok=True)
    ev = {"property_id": prop, "tier": tier, "seed": int(seed), "level": level, "coverage": coverage,
          "wall_s": round(wall, 2), "violations": int(violations), "assumptions": assumptions or []}
    with open(os.path.join(EVIDENCE, "%s.json" % prop), "w") as f:
        json.dump(ev, f, indent=1)
    return ev
