#!/usr/bin/env python3
"""show rejects of the newest cached static pipeline result"""
import json, glob, os, sys
fs = sorted(glob.glob('/verif/work/static-*.json'), key=os.path.getmtime)
r = json.load(open(fs[-1]))
want = sys.argv[1] if len(sys.argv) > 1 else "reject"
for prop, vs in sorted(r["verdicts"].items()):
    for rid, v, d in vs:
        if v == want:
            c = r["cases"][rid]
            print(prop, rid, c["name"], d[:200]); print("   ", c["code"][:1500].replace("\n", "\\n")); print("    cfg:", json.dumps(c["config"])[:300])
