#!/usr/bin/env python3
"""mutest.py <patch.diff> <prop> [<prop>...]  — apply a seeded change to the repository the checks build
from (VERIF_REPO, default /repo), run the quick checks, undo the change. Prints one line per check."""
import os, subprocess, sys, time
VERIF = os.path.dirname(os.path.dirname(os.path.dirname(os.path.abspath(__file__))))
REPO = os.environ.get("VERIF_REPO", "/repo")
patch = sys.argv[1]
props = sys.argv[2:]
def git(*a):
    return subprocess.run(["git", "-C", REPO, *a], capture_output=True, text=True)
st = git("status", "--porcelain").stdout.strip()
if st:
    print("repository not clean:", st); sys.exit(2)
r = git("apply", patch)
if r.returncode != 0:
    print("APPLY-FAILED", r.stderr[:300]); sys.exit(2)
try:
    for p in props:
        t = time.time()
        pr = subprocess.run([os.path.join(VERIF, "bin", "check"), p], capture_output=True, text=True,
                            env=dict(os.environ, VERIF_REPO=REPO))
        lines = [l for l in pr.stdout.splitlines() if l.startswith(("VIOLATION", "TOOL-ERROR", "  why", "  input"))]
        print("%s exit=%d %.0fs %s" % (p, pr.returncode, time.time() - t, " | ".join(lines[:3])[:600]))
finally:
    git("checkout", "--", ".")
    git("clean", "-fdq", "src", "js", "test")
