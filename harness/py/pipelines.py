#!/usr/bin/env python3
"""property id -> pipeline.  Each pipeline returns
   dict(verdicts=[(rid, verdict, detail)], cases={rid: {...}}, level, coverage, assumptions)"""
import json
import vlib

STATIC_PROPS = {"C01", "C02", "C03", "C04", "C05", "C06", "C07", "C08", "C12", "C13", "C14", "C15"}

COMMON_ASSUMPTIONS = [
    "A1 the crate is built natively (rlib from /repo/src/lib.rs with the verification cfg); the wasm32 artefact itself is not exercised",
    "A2 swc_ecma_ast/serde-impl is enabled in the harness build only (adds derives, no behaviour)",
    "swc's parser produces both the input tree and the re-parsed output tree (a parser bug affecting both alike is invisible here)",
    "TLC 1.8 + CommunityModules Json/IOUtils evaluate the TLA+ deciders; harness/py/norm.py maps swc JSON to uniform trees",
]


def run_static(prop, seed, tier, replay):
    import static_pipeline as sp
    if replay:
        rp = json.load(open(replay))
        c = rp["case"]
        res = sp.run(seed, tier, extra_cases=[{"name": "replay", "code": c["code"], "config": c["config"]}])
    else:
        res = sp.run(seed, tier)
    vs = res["verdicts"].get(prop, [])
    if prop == "C02":
        # non-trivial for C02 = a modified file whose instrumentation was actually erased
        vs = [(rid, "ok0" if (v == "ok" and "untouched" in d) else v, d) for rid, v, d in vs]
    samples = []
    for rid, v, d in vs:
        if v in ("ok", "dev") and len(samples) < 4:
            c = res["cases"][rid]
            samples.append({"input": c["code"][:400], "config": c["config"], "verdict": v, "detail": d[:200],
                            "output_head": (c.get("content") or "")[-600:-200]})
    st = res["stats"]
    l1 = res["verdicts"].get("L1", [])
    drift = [(rid, d) for rid, v, d in l1 if v == "drift"]
    cov = {
        "design_model_conformance": {
            "model": "spec/Rewriter.tla predicts the output tree (incl. temporary numbering), status, count, debug breakdown, refusals and the full stream of traversal events recorded by the cfg-guarded hooks (next_ident with counter value, reset_counter, update_status with count-before and tag, block enter/leave/cancel, prologue)",
            "observations_predicted_exactly": sum(1 for _, v, _ in l1 if v == "ok"),
            "trivially_agreeing": sum(1 for _, v, _ in l1 if v == "ok0"),
            "model_drift": len(drift),
            "drift_examples": [{"input": res["cases"][rid]["code"][:200], "why": d[:200]} for rid, d in drift[:3]]},
        "design_models": st.get("models", {}),
        "pipeline_wall_s": round(st.get("wall", 0), 1),
        "states": st["tlc_distinct"] + sum(m["distinct"] for m in st.get("models", {}).values()),
        "transitions": st["tlc_states"] + sum(m["states"] for m in st.get("models", {}).values()),
        "traces_validated_against_impl": st["records"],
        "evaluations": st["cases"], "samples": samples,
        "rule": "design level: MC_Rewriter.tla -- TLC enumerates every program of a bounded grammar under three configurations and "
                "checks the properties on the prediction of the rewriter model (Rewriter.tla); every enumerated program is printed, "
                "replayed into the real rewriter and its observed output compared with the prediction (0 drift = the design result "
                "transfers). Observations: cases = every seed operation x every statement context under the full configuration and sampled "
                "sub-configurations + seeded random programs/configurations (harness/py/gen.py); each is rewritten by the real "
                "rewriter, input and re-parsed output are recorded as one trace record and judged by TraceStatic.tla; "
                "a case is non-trivial for this property when its decider's antecedent is exercised (verdict other than 'na'); "
                "distinct = distinct (program text, configuration) pairs",
        "outcomes": st["outcomes"],
        "exhaustive": False,
    }
    cases = {rid: dict(c, key=[c["code"], c["config"]]) for rid, c in res["cases"].items()}
    return {"verdicts": vs, "cases": cases, "level": {"C08": "exploration", "C13": "fault_enumeration"}.get(prop, "model_checking"), "coverage": cov,
            "assumptions": COMMON_ASSUMPTIONS}


DYN_PROPS = {"C01", "C03", "C05", "C06"}


def run_dynamic(prop, seed, tier, replay):
    import dyn_pipeline as dp
    if replay:
        rp = json.load(open(replay))
        c = rp["case"]
        res = dp.run(seed, tier, extra_cases=[{"name": "replay", "code": c["code"], "config": c["config"]}])
    else:
        res = dp.run(seed, tier)
    vs = res["verdicts"].get(prop, [])
    samples = []
    for rid, v, d in vs:
        if v in ("ok", "dev") and len(samples) < 3:
            c = res["cases"][rid]
            samples.append({"input": c["code"][:400], "scenario": c["scenario"], "mode": c["mode"], "verdict": v})
    st = res["stats"]
    cov = {"states": st["tlc_distinct"], "transitions": st["tlc_states"], "traces_validated_against_impl": st["records"],
           "evaluations": st["records"], "samples": samples, "programs_executed": st["jobs"], "pipeline_wall_s": round(st.get("wall", 0), 1),
           "rule": "programs (operation x context grid + seeded random) are rewritten by the real rewriter; input and output run in "
                   "V8 inside the effect-logging membrane under the default scenario and single-fault / re-entry / reassignment "
                   "scenarios (each external interaction answered nullish / throwing / a string / re-entering); every pair of runs "
                   "is one trace record judged by TraceDyn.tla (ObsEquiv); non-trivial = the input run has at least one effect; "
                   "distinct = distinct (program, configuration, scenario, mode)",
           "exhaustive": False}
    return {"verdicts": vs, "cases": res["cases"], "level": "model_checking", "coverage": cov,
            "assumptions": COMMON_ASSUMPTIONS + [
                "V8 (Node 20) is the definition of JavaScript behaviour; harness/js/membrane.js is the observer",
                "A4 coercion callbacks do not reassign program variables; A5 call/apply/bind of functions are the intrinsics",
                "A6 with / direct eval / arguments aliasing are outside the generated fragment"]}


MAP_PROPS = {"C09", "C10", "C13"}


def run_map(prop, seed, tier, replay):
    import map_pipeline as mp
    if replay:
        rp = json.load(open(replay))
        c = rp["case"]
        kind = c.get("kind", "none")
        res = mp.run(seed, tier, extra_cases=[dict(c, name="replay", kind=kind, usable=None, otoks=[], ref=None)])
    else:
        res = mp.run(seed, tier)
    vs = res["verdicts"].get(prop, [])
    samples = []
    for rid, v, d in vs:
        if v == "ok" and len(samples) < 3:
            c = res["cases"][rid]
            samples.append({"input": c["code"][:300], "file": c["file"], "reference": c["kind"],
                            "settings": {k: c["config"].get(k) for k in ("chainSourceMap", "comments")}, "detail": d[:120]})
    st = res["stats"]
    ms = st.get("models", {})
    cov = {"states": st["tlc_distinct"] + sum(m["distinct"] for m in ms.values()),
           "transitions": st["tlc_states"] + sum(m["states"] for m in ms.values()),
           "traces_validated_against_impl": st["records"], "evaluations": st["cases"], "samples": samples,
           "design_models": ms, "pipeline_wall_s": round(st.get("wall", 0), 1),
           "original_maps_with_range_tokens": sum(1 for c in res["cases"].values() if c.get("range_tokens")),
           "rule": "design models: MC_Chain (chaining algorithm = exact composition on ALL small map pairs, with and without "
                   "range tokens) and MC_Reader (full "
                   "product of reference kinds x parent answers x settings, every tuple replayed); observations: programs with "
                   "generator-known layouts (multi-line, CRLF, non-ASCII, comments, look-alike literals) x original maps of "
                   "every reference kind through a fault-injecting FileReader; the trailer is decoded by the harness's own "
                   "base64/VLQ decoder and judged by TraceMap.tla; non-trivial = a modified file (C09: with paired identifiers; "
                   "C10: chained through a usable original map)", "exhaustive": False}
    level = "fault_enumeration" if prop == "C13" else "model_checking"
    return {"verdicts": vs, "cases": res["cases"], "level": level, "coverage": cov,
            "assumptions": COMMON_ASSUMPTIONS + ["A7 columns are compared in UTF-16 units; generators stay within the BMP",
                                                 "the harness's own base64/VLQ decoder and encoder (harness/py) are trusted"]}


def run_session(prop, seed, tier, replay):
    import session_pipeline as sess
    res = sess.run(seed, tier)
    vs = res["verdicts"].get(prop, [])
    st = res["stats"]
    samples = []
    for rid, v, d in vs[:3]:
        c = res["cases"][rid]
        samples.append({"instance": c["inst"], "file": c["file"], "code_class": c["codeclass"], "verdict": v})
    cov = {"states": st["tlc_distinct"], "transitions": st["tlc_states"], "traces_validated_against_impl": st["histories"],
           "evaluations": st["calls"], "samples": samples, "histories_enumerated_by_tlc": st["enumerated"],
           "pipeline_wall_s": round(st.get("wall", 0), 1),
           "rule": "Session.tla enumerates every history of <= 3 (quick) / 4 (thorough) calls over 2 rewriter instances (same "
                   "source names, different hook names; one with a random prefix) x 2 files x 5 code classes (modified, not "
                   "modified, syntax error, refused, modified with external map); each is replayed in a long-lived native "
                   "process and every call's digest (content, metrics, literal set, outcome) is compared by TraceSession.tla "
                   "with the same single call in a fresh process and with earlier identical calls; plus 50-call random "
                   "histories; non-trivial = a call whose (configuration, code, file) was already seen in that process",
           "exhaustive": True}
    return {"verdicts": vs, "cases": res["cases"], "level": "model_checking", "coverage": cov,
            "assumptions": COMMON_ASSUMPTIONS + ["instances are native Config values in one process (the wasm Rewriter object holds exactly that)"]}


def run_package(prop, seed, tier, replay):
    import package_pipeline as pk
    res = pk.run(seed, tier)
    vs = res["verdicts"].get(prop, [])
    st = res["stats"]
    samples = []
    for rid, v, d in vs:
        if v == "ok" and len(samples) < 3:
            samples.append({"history": res["cases"][rid]["history"], "event": res["cases"][rid]["event"], "verdict": v})
    cov = {"states": st["tlc_distinct"], "transitions": st["tlc_states"], "traces_validated_against_impl": st["histories"],
           "evaluations": st["events"], "samples": samples, "histories_enumerated_by_tlc": st["histories"],
           "pipeline_wall_s": round(st.get("wall", 0), 1),
           "rule": "Package.tla (cache / text-in-use state machine of main.js CacheRewriter + js/source-map) is model-checked "
                   "(LookupUsesLatest) and TLC enumerates every history of <= 3 (quick) / 4 (thorough) steps over 2 files x 6 "
                   "versions (modified x2, not modified, syntax error, chained through an inline original map, eval frame) x "
                   "{rewrite, throw}; each is replayed against the real main.js / js/source-map / js/stack-trace in Node (native "
                   "results from the driver), exceptions are thrown at generator-known lines of the text in use under both "
                   "prepareStackTrace paths, plus on-disk path/line lookups (mapped, no map, broken map, missing file, unknown "
                   "file); TracePackage.tla steps the model along the events; non-trivial = a throw inside a modified text",
           "exhaustive": True}
    cov["enclosing_positions_compared"] = sum(int((c.get("event") or {}).get("enclosing_checked", 0) or 0) for c in res["cases"].values())
    return {"verdicts": vs, "cases": res["cases"], "level": "model_checking", "coverage": cov,
            "assumptions": COMMON_ASSUMPTIONS + ["the wasm module is replaced by a table of results of the native driver; "
                                                 "lru-cache by a 10-line LRU with the same get/set/max contract",
                                                 "Node 20 V8 stack-trace API"]}


def merge(a, b, pa, pb):
    """both halves of a property must hold: verdict lists are concatenated (record ids prefixed)"""
    cases = {pa + k: v for k, v in a["cases"].items()}
    cases.update({pb + k: v for k, v in b["cases"].items()})
    vs = [(pa + rid, v, d) for rid, v, d in a["verdicts"]] + [(pb + rid, v, d) for rid, v, d in b["verdicts"]]
    cov = dict(a["coverage"])
    for k in ("states", "transitions", "traces_validated_against_impl", "evaluations"):
        cov[k] = a["coverage"].get(k, 0) + b["coverage"].get(k, 0)
    cov["samples"] = a["coverage"]["samples"][:2] + b["coverage"]["samples"][:2]
    cov["rule"] = "HALF %s " % pa + a["coverage"]["rule"] + " || HALF %s " % pb + b["coverage"]["rule"]
    return {"verdicts": vs, "cases": cases, "level": a["level"], "coverage": cov,
            "assumptions": sorted(set(a["assumptions"]) | set(b["assumptions"]))}


def run_property(prop, seed, tier, replay=None):
    if replay:
        rp = json.load(open(replay))
        half = "dyn" if str(rp.get("rid", "")).startswith("dyn:") else ("map" if str(rp.get("rid", "")).startswith(("map:", "m")) and prop in MAP_PROPS else "static")
        if half == "map":
            return run_map(prop, seed, tier, replay)
        if prop in DYN_PROPS and (half == "dyn" or prop not in STATIC_PROPS):
            return run_dynamic(prop, seed, tier, replay)
        return run_static(prop, seed, tier, replay)
    if prop == "C11":
        return run_package(prop, seed, tier, None)
    if prop == "C12":
        return merge(run_static(prop, seed, tier, None), run_package(prop, seed, tier, None), "static:", "pkg:")
    if prop == "C16":
        return merge(run_session(prop, seed, tier, None), run_package(prop, seed, tier, None), "sess:", "pkg:")
    if prop == "C13":
        return merge(run_static(prop, seed, tier, None), run_map(prop, seed, tier, None), "static:", "map:")
    if prop in MAP_PROPS:
        return run_map(prop, seed, tier, None)
    if prop in STATIC_PROPS and prop in DYN_PROPS:
        return merge(run_static(prop, seed, tier, None), run_dynamic(prop, seed, tier, None), "static:", "dyn:")
    if prop in DYN_PROPS:
        return run_dynamic(prop, seed, tier, None)
    if prop in STATIC_PROPS:
        return run_static(prop, seed, tier, None)
    raise vlib.ToolError("no pipeline registered for property %s" % prop)
