#!/usr/bin/env python3
"""The dynamic pipeline (C01, dynamic halves of C03 / C05 / C06): programs are rewritten by the real
rewriter, input and output are executed in V8 inside the effect-logging membrane
(harness/js/membrane.js) under the default scenario and single-fault / re-entry scenarios, and the
recorded effect logs are judged by TLC with TraceDyn.tla (ObsEquiv)."""
import json, os, random, re, sys, time
import vlib, gen, static_pipeline as sp

FREE = ["a", "b", "c", "d", "s", "f", "g", "h", "o", "p", "x", "y", "z", "v", "w", "i", "k", "q", "v1", "v2", "c2", "trim"]


def entry_of(code):
    for nm, pats in (("main", ["function main(", "function* main(", "async function main("]),
                     ("m", ["function m(", "function* m("]), ("fn", ["const fn ="])):
        if any(pt in code for pt in pats):
            return nm
    return None


def cases(seed, tier):
    rng = random.Random(seed * 7919 + 13)
    out = []
    sysm = gen.systematic()
    pick = sysm if tier == "thorough" else rng.sample(sysm, 1100)
    for name, code in pick:
        out.append({"name": "sys/full/" + name, "code": code, "config": sp.FULL_CFG})
    # direct eval configured as a bare (allowed-without-callee) method: it must stay a DIRECT eval
    ecfg = dict(sp.FULL_CFG, csiMethods=sp.FULL_CFG["csiMethods"] + [{"src": "eval", "allowedWithoutCallee": True}])
    for k, code in enumerate(["function m(name) { const secret = 'local value'; return eval('sec' + 'ret') + eval(a); }",
                              "function m() { let t = a + b; return eval('t') + t; }"]):
        out.append({"name": "special/eval/%d" % k, "code": code, "config": ecfg})
    n_random = 700 if tier == "quick" else 12000
    for i in range(n_random):
        g = gen.Gen(rng, max_depth=rng.choice([2, 3, 3, 4]))
        code = g.program()
        cfg = sp.FULL_CFG if rng.random() < 0.6 else gen.rand_config(rng)
        out.append({"name": "rnd/%d" % i, "code": code, "config": cfg})
    return out


def canon_key(k):
    k = str(k)
    # a function / class value used as a property key is its SOURCE TEXT, which rewriting legitimately reformats
    if "=>" in k or k.startswith(("function", "class ", "async ")) or "function" in k[:30]:
        return "<source text of a function>"
    return k


def canon_event(e):
    return {"e": str(e.get("e", "")), "x": str(e.get("o", e.get("f", ""))),
            "k": canon_key(e.get("k", e.get("h", e.get("d", "")))), "v": str(e.get("v", e.get("t", ""))),
            "a": [str(x) for x in e.get("a", [])]}


CALLFORM = re.compile(r"((?:[\w$]+\.)*[\w$]+)\.(?:call|apply)\(")
REALPATH = re.compile(r"^(?:String\.prototype\.(?:trim|concat|substring|replace|slice|toUpperCase|padStart|repeat|toString)"
                      r"|K\.prototype\.(?:trim|concat|substring|replace|slice|toUpperCase|padStart|repeat|foo|bar)"
                      r"|Array\.prototype\.(?:concat|slice|push|toString))$")


def comparable_dynamically(code):
    """X.….m.call|apply(..) forms are compared dynamically only when the callee path is made of real intrinsics
    that exist (String.prototype.m, K.prototype.m): the property permits reading a static path before or after the this-argument,
    and for a static path rooted in an observable / reassignable object that permitted reordering makes the two runs
    incomparable (the static checks C02 / C03 still cover those forms). A path that is not static (it starts at a
    call result, a parenthesis or a computed member) must be read in source order and is compared."""
    def ok(m):
        if REALPATH.match(m.group(1)):
            return True
        # f().m.call(..), (e).m.call(..), a[i].m.call(..): not a static path, so no reordering is permitted
        # (or performed) and the two runs are comparable event by event
        return code[max(0, m.start() - 2):m.start()] in (").", "].")
    return all(ok(m) for m in CALLFORM.finditer(code))


def canon_hook(h):
    args = [str(x) for x in h.get("args", [])]
    fid = args[1][1:] if len(args) > 1 and args[1].startswith("@") else ""
    return {"name": str(h.get("name")), "configured": bool(h.get("configured")), "at": int(h.get("at", 0)),
            "args": args, "result": str(h.get("result")), "check": str(h.get("check", "skip")), "fid": fid}


def canon_outcome(o, entry=True):
    o = o or {}
    if not entry and o.get("k") == "return":
        return {"k": "return", "v": "<completion value of the script>"}
    return {"k": str(o.get("k", "")), "v": str(o.get("v", ""))}


def run(seed, tier, extra_cases=None, use_cache=True):
    key = "dyn-%s-%s-%s-%s" % (vlib.driver_hash(), sp.spec_hash(), seed, tier)
    cache = os.path.join(vlib.WORK, key + ".json")
    if use_cache and extra_cases is None and os.path.exists(cache):
        vlib.log("dynamic pipeline: cached result", key)
        return json.load(open(cache))
    t0 = time.time()
    cs = extra_cases if extra_cases is not None else cases(seed, tier)
    st = sp.run(seed, tier, extra_cases=cs)          # real rewriter + static verdicts (named deviations)
    statdevs = {}
    for prop in ("H01", "C01", "C02", "C03", "C06"):
        for rid, v, d in st["verdicts"].get(prop, []):
            if v == "dev":
                statdevs.setdefault(rid, set()).update(
                    t[4:] if t.startswith("dev:") else t for t in vlib.parse_tla_value_strings(d))
    jobs = []
    meta = {}
    nscen = 8 if tier == "quick" else 14
    for i, c in enumerate(cs):
        rid = "r%d" % i
        bc = st["cases"][rid]
        if bc.get("outcome") != "ok" or not bc.get("content") or "eff" not in bc:
            continue
        if not comparable_dynamically(c["code"]):
            continue
        eff = bc["eff"]
        kinds = {m["dst"]: "method" for m in eff["methods"]}
        if eff["plus"]:
            kinds[eff["plus"]] = "plus"
        if eff["tpl"]:
            kinds[eff["tpl"]] = "tpl"
        kind = "module" if ("import " in c["code"] or "export " in c["code"]) else "script"
        base = {"kind": kind, "in": c["code"], "out": bc["content"], "free": FREE, "hooks": eff["alldsts"],
                "hookkinds": kinds, "entry": c.get("entry", entry_of(c["code"])), "seed": seed}
        jobs.append(dict(base, id=rid + "/p", scenarios="auto", max_scenarios=nscen))
        if i % 4 == 0:
            jobs.append(dict(base, id=rid + "/a", ddiast="absent", scenarios=[{"sid": "default", "resp": {}}]))
        if i % 4 == 1 and base["entry"]:
            # load order: the file is loaded first, the tracer installs its hooks afterwards, then the code runs
            jobs.append(dict(base, id=rid + "/l", ddiast="late", scenarios=[{"sid": "default", "resp": {}}]))
        meta[rid] = {"alldsts": eff["alldsts"], "statdevs": sorted(statdevs.get(rid, []))}
    t1 = time.time()
    results = vlib.run_node_jobs("membrane.js", jobs, nproc=vlib.NCPU, timeout=1800)
    t2 = time.time()
    recs = []
    bycase = {}
    nerr = 0
    nskip_src = 0
    for job in jobs:
        res = results.get(job["id"])
        rid, mode = job["id"].split("/")
        if res is None or "error" in res or "runs" not in res:
            nerr += 1
            continue
        for run_ in res["runs"]:
            a, b = run_.get("in") or {}, run_.get("out") or {}
            if not b:
                continue
            if (a.get("outcome") or {}).get("k") in ("syntax", "timeout", "overflow", "unsupported") or \
               (b.get("outcome") or {}).get("k") in ("timeout", "overflow", "unsupported"):
                # V8 rejects the input (e.g. top-level return) / run cut short: nothing comparable
                if (a.get("outcome") or {}).get("k") == "syntax" or (b.get("outcome") or {}).get("k") != "syntax":
                    continue
            resp = run_.get("resp") or {}
            blob = json.dumps([a.get("log"), b.get("log"), a.get("outcome"), b.get("outcome")])
            if a.get("srctext") or b.get("srctext") or "=>" in blob or "function" in blob or "class " in blob:
                # a function value was used as a property key / coerced to text: its SOURCE TEXT is in the log,
                # and rewriting legitimately reformats source text (Function.prototype.toString): not comparable
                nskip_src += 1
                continue
            if "${" in st["cases"][rid]["code"] and any(k.startswith("prim:") and (v or {}).get("k") != "throw" for k, v in resp.items()):
                # a fault that changes the VALUE of the n-th coercion of an object: the permitted delay of template
                # coercions renumbers the coercions, so the fault would hit a different operation in the two runs
                continue
            rrid = "%s/%s/%s" % (rid, mode, run_.get("sid"))
            dd = b.get("ddiast") or {}
            recs.append({
                "rid": rrid, "sid": str(run_.get("sid")),
                "inlog": [canon_event(e) for e in a.get("log", [])],
                "outlog": [canon_event(e) for e in b.get("log", [])],
                # without an entry function the "return value" is the script's completion value, which no
                # loader observes (and which the injected prologue legitimately changes): not compared
                "inout": canon_outcome(a.get("outcome"), job["entry"]), "outout": canon_outcome(b.get("outcome"), job["entry"]),
                "hooks": [canon_hook(h) for h in b.get("hooks", [])],
                "statdevs": meta[rid]["statdevs"], "alldsts": meta[rid]["alldsts"],
                "protocall": (".call(" in st["cases"][rid]["code"]) or (".apply(" in st["cases"][rid]["code"]),
                "spreadthis": bool(re.search(r"\.(?:call|apply)\(\s*\.\.\.", st["cases"][rid]["code"])),
                "primfault": any(k.startswith("prim:") and (v or {}).get("k") == "throw" for k, v in resp.items()),
                "swallow": bool(re.search(r"\b(?:catch|finally|async)\b", st["cases"][rid]["code"])),
                "reenter": any((v or {}).get("k") == "reenter" for v in resp.values()),
                "absent": mode == "a", "ns_exists": bool(dd.get("exists")), "ns_keys": [str(x) for x in dd.get("keys", [])],
                "ns_preserved": bool(dd.get("preserved", mode == "a")),
                "late": mode == "l", "late_found": bool(dd.get("late_found")),
            })
            bycase[rrid] = {"name": st["cases"][rid]["name"], "code": st["cases"][rid]["code"],
                            "config": st["cases"][rid]["config"], "scenario": resp, "mode": mode,
                            "key": [st["cases"][rid]["code"], st["cases"][rid]["config"], resp, mode]}
    t3 = time.time()
    vlib.log("dynamic pipeline: %d programs, %d membrane jobs (%d failed), %d run pairs; static+driver %.1fs V8 %.1fs" %
             (len(cs), len(jobs), nerr, len(recs), t1 - t0, t2 - t1))
    if jobs and nerr > len(jobs) // 2:
        raise vlib.ToolError("most membrane jobs failed")
    verdicts, tst = vlib.validate_trace("TraceDyn", "TraceDyn.cfg", recs, "dyn")
    t4 = time.time()
    vlib.log("dynamic pipeline: TLC validated %d run pairs in %.1fs" % (len(recs), t4 - t3))
    byprop = {}
    for rid, prop, v, detail in verdicts:
        byprop.setdefault(prop, []).append((rid, v, detail))
    res = {"verdicts": byprop, "cases": bycase, "stats": {
        "cases": len(cs), "jobs": len(jobs), "records": len(recs), "tlc_states": tst["states"] + st["stats"]["tlc_states"],
        "tlc_distinct": tst["distinct"] + st["stats"]["tlc_distinct"], "wall": t4 - t0}}
    if extra_cases is None:
        json.dump(res, open(cache, "w"))
    return res


if __name__ == "__main__":
    seed = int(os.environ.get("VERIF_SEED", "1"))
    tier = sys.argv[1] if len(sys.argv) > 1 else "quick"
    r = run(seed, tier, use_cache=False)
    for prop, vs in sorted(r["verdicts"].items()):
        cnt = {}
        for rid, v, d in vs:
            cnt[v] = cnt.get(v, 0) + 1
        print(prop, cnt)
        shown = 0
        for rid, v, d in sorted(vs, key=lambda x: len(r["cases"][x[0]]["code"])):
            if v in ("reject",) and shown < 25:
                shown += 1
                print("   ", v, rid, r["cases"][rid]["name"], d[:500])
                print("       ", r["cases"][rid]["code"][:300].replace("\n", "\\n"), "| scen:", json.dumps(r["cases"][rid]["scenario"]))
    print(r["stats"])
