#!/usr/bin/env python3
"""Session pipeline (C16): call histories enumerated by TLC from Session.tla (every history up to a
bound over 2 rewriter instances x 2 files x 5 code classes) plus long random histories are replayed
in long-lived driver processes; every result is compared, by TraceSession.tla, with the same single
call made in a fresh process and with earlier identical calls."""
import hashlib, json, os, random, re, sys, time
import vlib, gen, static_pipeline as sp

def _map(sources, names, toks):
    import map_pipeline as mp
    return json.dumps({"version": 3, "sources": sources, "names": names, "mappings": mp.encode_mappings(toks)})


# several sources and names: anything that reorders them between calls shows in the chained map
MAP = _map(["orig.ts", "b.ts", "c.ts", "d.ts"], ["n1", "n2", "n3"],
           [(0, 0, 0, 0, 0, 0), (0, 9, 1, 3, 2, 1), (1, 0, 2, 5, 0, None), (1, 4, 3, 1, 7, 2), (2, 0, 0, 9, 1, None)])
# the two directories hold DIFFERENT maps behind the same relative reference
MAP_B = _map(["other.ts", "x.ts", "y.ts"], ["m1", "m2"],
             [(0, 0, 1, 10, 0, 1), (0, 9, 0, 2, 2, None), (1, 0, 2, 4, 4, 0), (2, 0, 1, 8, 8, None)])
CFG = {
    "A": dict(sp.FULL_CFG, chainSourceMap=True, comments=True),
    # same source names as A, other hook names, random prefix (localVarPrefix omitted)
    "B": {"telemetryVerbosity": "DEBUG", "chainSourceMap": True, "csiMethods": [
        dict(m, dst=(m["src"] + "B")) for m in sp.FULL_CFG["csiMethods"]]},
}
FILES = {"f1": "/w/a/one.js", "f2": "/w/b/two.js"}
REF = "\n//# sourceMappingURL=orig.js.map\n"
CODES = {
    "mod": "function m(a, b) { return a + b.trim(); }\n",
    "notmod": "function m(a) { return a; }\n",
    "syntax": "class C { constructor() {} constructor() {} }\nfunction m(a, b) { return a + b; }" + REF,
    "refused": "function m(a, b) { const c = a + b(); return __datadog_p_0; }" + REF,
    "modmap": "function m(a, b) {\n  return `${a}` + b.substring(1);\n}" + REF,
}
READER = {"parent": "default", "files": {"/w/a/orig.js.map": {"kind": "ok", "content": MAP},
                                         "/w/b/orig.js.map": {"kind": "ok", "content": MAP_B}}}
PFX = re.compile(r"__datadog_([a-z]{6})_")


def digest(resp, random_prefix):
    content = resp.get("content") or ""
    prefix = ""
    if random_prefix:
        m = PFX.search(content)
        prefix = m.group(1) if m else ""
        content = PFX.sub("__datadog_PFX_", content)
        # the embedded map is the same text for every prefix (names are not recorded), keep it
    lits = resp.get("literals") or {}
    litset = sorted((x["value"], sorted((l.get("ident") or "", l["line"], l["column"]) for l in x["locations"]))
                    for x in lits.get("literals", []))
    blob = json.dumps([resp.get("outcome"), content, resp.get("metrics"), litset,
                       resp.get("error") if resp.get("outcome") != "ok" else None], sort_keys=True)
    return hashlib.sha256(blob.encode()).hexdigest()[:20], prefix


def step_req(inst, code, file, rid):
    return {"id": rid, "op": "rewrite", "inst": inst, "code": CODES.get(code, code), "file": FILES.get(file, file),
            "reader": READER}


def run(seed, tier, extra_cases=None, use_cache=True):
    key = "session-%s-%s-%s-%s" % (vlib.driver_hash(), sp.spec_hash(), seed, tier)
    cache = os.path.join(vlib.WORK, key + ".json")
    if use_cache and extra_cases is None and os.path.exists(cache):
        vlib.log("session pipeline: cached result", key)
        return json.load(open(cache))
    t0 = time.time()
    rng = random.Random(seed * 31 + 5)
    model = vlib.run_model("Session", "MC_Session.cfg" if tier == "quick" else "MC_Session_big.cfg", workers=8, timeout=3000)
    hists = [[(s["inst"], s["code"], s["file"]) for s in h] for h in model["replays"]]
    if extra_cases is not None:
        hists = extra_cases
    # long random histories, with random programs as extra code classes
    extra_codes = {}
    for i in range(12 if tier == "quick" else 200):
        extra_codes["rnd%d" % i] = gen.Gen(rng, max_depth=3).program()
    allcodes = list(CODES) + list(extra_codes)
    CODES.update(extra_codes)
    if extra_cases is None:
        for i in range(40 if tier == "quick" else 1500):
            hists.append([(rng.choice("AB"), rng.choice(allcodes), rng.choice(list(FILES))) for _ in range(50)])
    # fresh single calls: one process per distinct (instance config, code, file)
    keys = sorted({(i, c, f) for h in hists for (i, c, f) in h})
    fresh = {}

    def fresh_call(k):
        i, c, f = k
        out = vlib.run_history([{"id": "n", "op": "new", "inst": i, "config": CFG[i]}, step_req(i, c, f, "x")])
        return k, out[-1] if len(out) == 2 else {"outcome": "abort"}
    import concurrent.futures as cf
    with cf.ThreadPoolExecutor(max_workers=vlib.NCPU) as ex:
        for k, r in ex.map(fresh_call, keys):
            fresh[k] = digest(r, k[0] == "B")[0]
    t1 = time.time()
    # sessions: histories distributed over long-lived processes
    nproc = vlib.NCPU
    sessions = [hists[k::nproc] for k in range(nproc)]

    def play(sess):
        events = [{"ev": "reset"}]
        if not sess:
            return events
        d = vlib.DriverProc()
        n = 0
        for h in sess:
            for inst in ("A", "B"):
                r = d.call({"id": "n", "op": "new", "inst": inst, "config": CFG[inst]})
                events.append({"ev": "new", "inst": inst, "cfg": inst,
                               "prefix": "" if inst == "B" else (r.get("effective_config") or {}).get("localVarPrefix", "")})
            for (i, c, f) in h:
                n += 1
                r = d.call(step_req(i, c, f, "s"))
                dg, pfx = digest(r, i == "B")
                events.append({"ev": "rewrite", "inst": i, "code": c, "file": f, "result": dg, "fresh": fresh[(i, c, f)],
                               "prefix": pfx, "rid": "", "outcome": str(r.get("outcome"))})
                if not d.alive():
                    d = vlib.DriverProc()
                    events.append({"ev": "reset"})
        d.close()
        return events
    with cf.ThreadPoolExecutor(max_workers=nproc) as ex:
        evlists = list(ex.map(play, sessions))
    t2 = time.time()
    # one trace per session (state must flow along a session); rids are global
    verdicts = []
    states = distinct = 0
    bycase = {}
    traces = []
    n = 0
    for k, evs in enumerate(evlists):
        for e in evs:
            e.setdefault("inst", ""); e.setdefault("cfg", ""); e.setdefault("prefix", ""); e.setdefault("code", "")
            e.setdefault("file", ""); e.setdefault("result", ""); e.setdefault("fresh", ""); e.setdefault("rid", "")
            if e["ev"] == "rewrite":
                n += 1
                e["rid"] = "h%d" % n
                bycase[e["rid"]] = {"name": "session %d" % k, "code": CODES.get(e["code"], e["code"]), "codeclass": e["code"],
                                    "inst": e["inst"], "file": e["file"], "config": CFG[e["inst"]],
                                    "key": [k, e["rid"]]}
        traces.append(evs)
    # TLC: one run per session trace, in parallel
    res = [None] * len(traces)

    def check(k):
        if len(traces[k]) <= 1:
            res[k] = ([], {"states": 0, "distinct": 0})
            return
        res[k] = vlib.validate_trace("TraceSession", "TraceSession.cfg", traces[k], "sess%d" % k, chunks=1)
    import threading
    ths = [threading.Thread(target=check, args=(k,)) for k in range(len(traces))]
    for t in ths:
        t.start()
    for t in ths:
        t.join()
    for r in res:
        if r is None:
            raise vlib.ToolError("a session trace was not validated")
        verdicts += r[0]
        states += r[1]["states"]
        distinct += r[1]["distinct"]
    t3 = time.time()
    vlib.log("session pipeline: %d histories (%d enumerated by TLC), %d calls; fresh %.1fs replay %.1fs TLC %.1fs" %
             (len(hists), len(model["replays"]), n, t1 - t0, t2 - t1, t3 - t2))
    byprop = {}
    for rid, prop, v, detail in verdicts:
        byprop.setdefault(prop, []).append((rid, v, detail))
    out = {"verdicts": byprop, "cases": bycase, "stats": {
        "histories": len(hists), "enumerated": len(model["replays"]), "calls": n, "tlc_states": states + model["states"],
        "tlc_distinct": distinct + model["distinct"], "model_states": model["distinct"], "wall": t3 - t0}}
    if extra_cases is None:
        json.dump(out, open(cache, "w"))
    return out


if __name__ == "__main__":
    seed = int(os.environ.get("VERIF_SEED", "1"))
    tier = sys.argv[1] if len(sys.argv) > 1 else "quick"
    r = run(seed, tier, use_cache=False)
    for prop, vs in sorted(r["verdicts"].items()):
        cnt = {}
        for rid, v, d in vs:
            cnt[v] = cnt.get(v, 0) + 1
        print(prop, cnt)
        for rid, v, d in [x for x in vs if x[1] == "reject"][:10]:
            print("   ", rid, d[:300], r["cases"][rid]["codeclass"])
    print(r["stats"])
