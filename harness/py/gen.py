#!/usr/bin/env python3
"""Seeded grammar-based generator of JavaScript programs and rewriter configurations.

Programs go well beyond the exhaustive TLC bounds: deeper nesting, every statement context,
effectful operands everywhere, all receiver kinds, optional chains, prototype call/apply forms,
spreads, directives, reserved-prefix identifiers (optional), planted long literals (optional).
Everything is a function of the random.Random instance handed in.
"""
import random

METHODS = ["trim", "concat", "substring", "replace", "slice", "toUpperCase", "padStart", "repeat"]
OTHER_METHODS = ["foo", "bar", "push", "toString"]
BARE = ["aloneMethod", "encodeURI"]
IDENTS = ["a", "b", "c", "d", "s"]
FUNCS = ["f", "g", "h"]
OBJS = ["o", "p"]
CLASSES = ["String", "Array", "K"]


def rand_config(rng, force_full=False, prefix="p"):
    """-> raw config (what a user passes to new Rewriter(config)); omitted keys stay omitted"""
    methods = []
    if force_full or rng.random() < 0.8:
        m = {"src": "plusOperator", "operator": True}
        if rng.random() < 0.3:
            m["dst"] = rng.choice(["plus", "add", "plusOperator"])
        methods.append(m)
    if force_full or rng.random() < 0.8:
        m = {"src": "tplOperator", "operator": True}
        if rng.random() < 0.3:
            m["dst"] = rng.choice(["tpl", "tplOperator"])
        methods.append(m)
    for name in METHODS:
        if force_full or rng.random() < 0.6:
            m = {"src": name}
            if rng.random() < 0.4:
                m["dst"] = rng.choice(["string" + name[0].upper() + name[1:], name + "X", name])
            if rng.random() < 0.15:
                m["operator"] = False
            methods.append(m)
    for name in BARE:
        if force_full or rng.random() < 0.6:
            m = {"src": name, "allowedWithoutCallee": True}
            if rng.random() < 0.3:
                m["dst"] = name + "Hook"
            methods.append(m)
        elif rng.random() < 0.5:
            methods.append({"src": name})  # listed but NOT allowed without callee
    if not force_full:
        if rng.random() < 0.12:
            # several methods behind one hook name
            shared = rng.choice(["strOp", "h", "trim"])
            for m in methods:
                if not m.get("operator") and rng.random() < 0.6:
                    m["dst"] = shared
        if rng.random() < 0.08:
            methods.append({"src": rng.choice(["padEnd", "replaceAll", "trimStart", "at", "eval"]), "allowedWithoutCallee": rng.random() < 0.3})
        rng.shuffle(methods)
        if rng.random() < 0.06:
            methods = []
    cfg = {"csiMethods": methods}
    if prefix is not None:
        cfg["localVarPrefix"] = prefix
    r = rng.random()
    if force_full or r < 0.45:
        cfg["telemetryVerbosity"] = "DEBUG"
    elif r < 0.6:
        cfg["telemetryVerbosity"] = "OFF"
    elif r < 0.7:
        cfg["telemetryVerbosity"] = "MANDATORY"
    elif r < 0.8:
        cfg["telemetryVerbosity"] = rng.choice(["information", "Debug", "bogus"])
    if rng.random() < 0.3:
        cfg["comments"] = rng.random() < 0.7
    if rng.random() < 0.3:
        cfg["literals"] = rng.random() < 0.5
    if rng.random() < 0.2:
        cfg["chainSourceMap"] = rng.random() < 0.5
    if not force_full and rng.random() < 0.03:
        del cfg["csiMethods"]
    return cfg


class Gen:
    def __init__(self, rng, max_depth=5, reserved=None, long_literals=False, multiline=False):
        self.r = rng
        self.max_depth = max_depth
        self.reserved = reserved          # e.g. "__datadog_p_3" to plant, or None
        self.long_literals = long_literals
        self.multiline = multiline
        self.in_async = False
        self.in_gen = False
        self.in_derived = False           # inside a method of a class with a heritage: super.m(..) is legal
        self.has_priv = False             # inside a class that declares #pv
        self.fn_depth = 0                 # > 0 inside a function body: `return` is legal
        self.nvar = 0                     # declared names are unique per program
        self.nlbl = 0
        self.nlit = 0

    # ---------------------------------------------------------------- leaves
    def strlit(self):
        r = self.r
        if self.long_literals and r.random() < 0.5:
            self.nlit += 1
            n = r.choice([9, 10, 11, 12, 20, 40, 255, 256, 257])
            base = "L%d_" % self.nlit
            body = (base + "x" * n)[:n] if n > len(base) else ("y" * n)
            if r.random() < 0.2:
                body = body[:-2] + "é" if len(body) > 3 else body
            q = r.choice(["'", '"'])
            return q + body + q
        if r.random() < 0.12:
            return r.choice(["'\\u00e9\\x41\\n'", "'it\\'s'", '"q\\"q"', "'\u00e9\u4e2d'", "'\\\\'", "'\\0'", "'</script>'",
                             "'\u2028'", "'$" "{a}'", "'`'", "'\\u{1F600}'", "'\U0001F600'"])
        return r.choice(["'x'", '"y"', "'long literal value'", "''", "'a b'"])

    def lit(self):
        r = self.r
        if r.random() < 0.1:
            return r.choice(["0x1F", "1_000", "1e3", ".5", "0b11", "0o7", "5n", "/a\\/b[/]/giu", "/(?<n>x)\\k<n>/s", "false", "-0"])
        return r.choice([self.strlit(), self.strlit(), "1", "0", "2.5", "true", "null", "/re/g", "10n"])

    def ident(self):
        if self.reserved and self.r.random() < 0.08:
            return self.reserved
        if self.r.random() < 0.01:
            return self.r.choice(["\\u0061", "\\u{62}"])      # a / b spelled with an escape
        return self.r.choice(IDENTS)

    def leaf(self):
        r = self.r
        x = r.random()
        if x < 0.35:
            return self.ident()
        if x < 0.5:
            return self.lit()
        if x < 0.65:
            return "%s(%s)" % (r.choice(FUNCS), self.ident() if r.random() < 0.5 else "")
        if x < 0.8:
            return "%s.%s" % (r.choice(OBJS), r.choice(["x", "y", "z"]))
        if x < 0.85:
            return "this"
        if x < 0.9:
            return "undefined"
        return self.strlit()

    def sep(self):
        if self.multiline and self.r.random() < 0.25:
            return self.r.choice(["\n  ", "\n\t", " \n", "\r\n    "])
        return " "

    # ---------------------------------------------------------------- expressions
    def args(self, d, allow_spread=True):
        r = self.r
        n = r.choice([0, 1, 1, 2, 3])
        out = []
        for _ in range(n):
            if allow_spread and r.random() < 0.15:
                out.append("..." + self.prim(d + 1))
            else:
                out.append(self.assign_expr(d + 1))
        return ", ".join(out)

    def receiver(self, d):
        r = self.r
        x = r.random()
        if x < 0.3:
            return self.ident()
        if x < 0.45:
            return "%s.%s" % (r.choice(OBJS), r.choice(["x", "y"]))
        if x < 0.55:
            return "%s(%s)" % (r.choice(FUNCS), "")
        if x < 0.7:
            return "(" + self.expr(d + 1) + ")"
        if x < 0.78:
            return "[" + self.args(d + 1) + "]"
        if x < 0.88:
            return self.strlit()
        if x < 0.91:
            return "this"
        if x < 0.94:
            return "%s.prototype" % r.choice(CLASSES)
        if x < 0.97:
            return "new K()"
        return "`t${%s}`" % self.ident()

    def method_name(self):
        r = self.r
        return r.choice(METHODS) if r.random() < 0.8 else r.choice(OTHER_METHODS)

    def call(self, d):
        r = self.r
        x = r.random()
        if x < 0.45:
            return "%s.%s(%s)" % (self.receiver(d), self.method_name(), self.args(d))
        if x < 0.6:
            # prototype form
            cls = r.choice(CLASSES)
            m = self.method_name()
            this = r.choice([self.ident(), self.strlit(), "%s()" % r.choice(FUNCS), "..." + self.ident(), "o.x"])
            if r.random() < 0.6:
                rest = self.args(d)
                return "%s.prototype.%s.call(%s%s)" % (cls, m, this, (", " + rest) if rest else "")
            y = r.random()
            if y < 0.6:
                arr = "[" + self.args(d) + "]"
            elif y < 0.8:
                arr = self.ident()
            else:
                arr = ""
            return "%s.prototype.%s.apply(%s%s)" % (cls, m, this, (", " + arr) if arr else "")
        if x < 0.7:
            return "%s(%s)" % (r.choice(BARE), self.args(d))
        if x < 0.78:
            return "%s[%s](%s)" % (self.ident(), self.prim(d + 1), self.args(d))
        if x < 0.84:
            return "%s.%s.call(%s)" % (self.ident(), self.method_name(), self.args(d, allow_spread=False) or self.ident())
        if x < 0.88:
            return "%s(%s)" % (r.choice(FUNCS), self.args(d))
        if x < 0.91:
            # callee paths that are not static: computed link, call result, parenthesis
            path = r.choice(["o[%s]" % self.prim(d + 1), "%s()" % r.choice(FUNCS), "(%s)" % self.expr(d + 1), "o[%s].x" % self.ident()])
            if r.random() < 0.5:
                return "%s.%s.call(%s)" % (path, self.method_name(), self.args(d, allow_spread=False) or self.ident())
            return "%s.%s.apply(%s, [%s])" % (path, self.method_name(), self.prim(d + 1), self.args(d))
        if x < 0.93 and self.in_derived:
            return "super.m%d(%s)" % (r.randint(1, 3), self.args(d))
        if x < 0.95:
            return "import(%s)" % self.assign_expr(d + 1)
        if x < 0.97:
            return "o.tag`x${%s}y`" % self.expr(d + 1)
        return "new K(%s)" % self.args(d)

    def optchain(self, d):
        r = self.r
        base = r.choice([self.ident(), "o.x", "%s()" % r.choice(FUNCS), "(" + self.expr(d + 1) + ")", "o"])
        n = r.choice([1, 2, 2, 3, 4])
        s = base
        used_opt = False
        for i in range(n):
            opt = r.random() < (0.6 if not used_opt else 0.3)
            kind = r.random()
            if kind < 0.4:
                s += ("?." if opt else ".") + r.choice(["x", "y", "q"])
            elif kind < 0.8:
                s += ("?." if opt else ".") + self.method_name() + "(" + self.args(d + 1) + ")"
            elif kind < 0.9:
                s += ("?.[" if opt else "[") + self.prim(d + 1) + "]"
            else:
                s += ("?.(" if opt else "(") + self.args(d + 1) + ")"
            used_opt = used_opt or opt
        if not used_opt:
            s += "?." + self.method_name() + "(" + self.args(d + 1) + ")"
        return s

    def template(self, d):
        r = self.r
        n = r.choice([1, 1, 2, 3])
        s = "`"
        for i in range(n):
            s += r.choice(["", "x", " y ", "", "x", " y ", "\\n", "\u00e9", "$", "\\${", "\\`", "{}", "\\u00e9\\x41"])
            if r.random() < 0.12:
                s += "${" + self.lit() + "}"
            else:
                s += "${" + self.expr(d + 1) + "}"
        s += r.choice(["", "z"]) + "`"
        if r.random() < 0.1:
            s = r.choice(["tag", "String.raw"]) + s
        return s

    def prim(self, d):
        r = self.r
        if d >= self.max_depth:
            return self.leaf()
        x = r.random()
        if x < 0.04:
            # one of the systematic operation shapes, wherever an expression can stand
            return "(" + r.choice(SEED_OPS)[1] + ")"
        if x < 0.35:
            return self.leaf()
        if x < 0.55:
            return self.call(d)
        if x < 0.63:
            return self.optchain(d)
        if x < 0.71:
            return self.template(d)
        if x < 0.8:
            return "(" + self.expr(d + 1) + ")"
        if x < 0.83:
            return "[" + self.args(d) + "]"
        if x < 0.84:
            return r.choice(["[...%s, %s]" % (self.prim(d + 1), self.assign_expr(d + 1)), "({ ...%s, k: %s })" % (self.prim(d + 1), self.assign_expr(d + 1)),
                             "void %s" % self.prim(d + 1), "[, %s, , ]" % self.assign_expr(d + 1)])
        if x < 0.88:
            k = r.choice(["k", "'long literal key'", "[" + self.prim(d + 1) + "]", "1", "'quoted key'"])
            return "({ %s: %s, %s })" % (k, self.assign_expr(d + 1), r.choice([
                "b", "m() { %s }" % self.fbody(d, "", 0, ret=True), "...o",
                "get g() { %s }" % self.fbody(d, "", 0, ret=True),
                "async am() { %s }" % self.fbody(d, "", 0, is_async=True, ret=True), "*gm() { %s }" % self.fbody(d, "", 0, is_gen=True, ret=True),
                "['c' + %s]() { %s }" % (self.ident(), self.fbody(d, "", 0, directives=False, ret=True)),
                "set g(x) { %s }" % self.fbody(d, "x", 1)]))
        if x < 0.92:
            return self.arrow(d)
        if x < 0.95:
            ps = self.fparams(d)
            return "function (%s) { %s }" % (ps, self.fbody(d, ps, 2, derived=False))
        if x < 0.975 and self.in_async:
            return "(await %s)" % self.prim(d + 1)
        if x < 0.99 and self.in_gen:
            return "(yield%s %s)" % (r.choice(["", "", "*"]), self.prim(d + 1))
        return self.leaf()

    def arrow(self, d):
        r = self.r
        sa, sg = self.in_async, self.in_gen
        is_async = r.random() < 0.15
        self.in_async = self.in_gen = False
        ps = r.choice(["", "x", "x, y", "x = %s" % self.expr(d + 1), "{x}", "...r", "{x = %s}" % self.prim(d + 1), "[x, y = %s]" % self.prim(d + 1)])
        kw = "async " if is_async else ""
        try:
            if r.random() < 0.6:
                self.in_async = is_async
                body = self.assign_expr(d + 1)
                if body.lstrip().startswith("{"):
                    body = "(" + body + ")"
                return "(%s(%s) => %s)" % (kw, ps, body)
            return "(%s(%s) => { %s })" % (kw, ps, self.fbody(d, ps, 2, is_async=is_async))
        finally:
            self.in_async, self.in_gen = sa, sg

    def unary(self, d):
        r = self.r
        x = r.random()
        if x < 0.06:
            return "typeof " + self.prim(d)
        if x < 0.1:
            return "!" + self.prim(d)
        if x < 0.13:
            return "delete " + r.choice(["o.x", "%s.%s" % (self.ident(), "y"), self.optchain(d) + ".z", "o[%s]" % self.expr(d + 1)])
        if x < 0.15:
            return "-" + self.prim(d)
        if x < 0.17:
            return r.choice(["++", "--"]) + r.choice(["a", "o.x"])
        if x < 0.19:
            return r.choice(["a", "o.x"]) + r.choice(["++", "--"])
        return self.prim(d)

    def binary(self, d):
        r = self.r
        if d >= self.max_depth or r.random() < 0.45:
            return self.unary(d)
        op = r.choice(["+", "+", "+", "+", "+", "*", "-", "==", "===", "<", "&&", "||", "??", "in", "instanceof", "%",
                       "**", ">>>", "&", "|", "^", "<<", "!=", "!==", ">=", "/"])
        l = self.binary(d + 1)
        rr = self.binary(d + 1)
        if op in ("??", "&&", "||") and any(t in l + rr for t in ("??", "&&", "||")):
            l, rr = "(" + l + ")", "(" + rr + ")"
        elif "??" in l + rr:
            # a tighter operator next to an unparenthesised ?? would regroup it with && / || further out
            l, rr = "(" + l + ")", "(" + rr + ")"
        if op in ("in", "instanceof"):
            rr = r.choice(["o", "K"])
        if l.startswith("-") or l.startswith("!") or l.startswith("typeof") or l.startswith("delete") or l.startswith("+"):
            l = "(" + l + ")"
        if rr.startswith("-") or rr.startswith("+"):
            rr = "(" + rr + ")"
        if op == "**":
            l, rr = "(" + l + ")", "(" + rr + ")"
        if op == "/" and rr.startswith("/"):
            rr = "(" + rr + ")"
        return l + self.sep() + op + self.sep() + rr

    def cond(self, d):
        r = self.r
        if d < self.max_depth and r.random() < 0.12:
            return "%s ? %s : %s" % (self.binary(d + 1), self.assign_expr(d + 1), self.assign_expr(d + 1))
        return self.binary(d)

    def target(self, d):
        r = self.r
        x = r.random()
        if x < 0.5:
            return self.ident()
        if x < 0.75:
            return "o.%s" % r.choice(["x", "y"])
        if x < 0.85:
            return "o[%s]" % self.ident()
        if x < 0.9:
            return "a[i++]"
        if x < 0.95:
            return "%s().p" % r.choice(FUNCS)
        return "o.x.y"

    def assign_expr(self, d):
        r = self.r
        if d < self.max_depth and r.random() < 0.15:
            if r.random() < 0.08:
                return r.choice(["[a, b] = [b, %s]" % self.assign_expr(d + 1), "({ x: a, y: b = %s } = o)" % self.prim(d + 1)])
            op = r.choice(["+=", "+=", "+=", "=", "-=", "||=", "??=", "&&=", "**=", "*="])
            return "%s %s %s" % (self.target(d), op, self.assign_expr(d + 1))
        return self.cond(d)

    def expr(self, d):
        r = self.r
        if d < self.max_depth and r.random() < 0.06:
            return self.assign_expr(d + 1) + ", " + self.assign_expr(d + 1)
        return self.assign_expr(d)

    # ---------------------------------------------------------------- statements
    def params(self, d):
        r = self.r
        return r.choice(["", "x", "x, y", "x, y = %s" % self.expr(d + 1), "{x, y}", "x, ...rest",
                         "x = %s" % self.prim(d + 1), "{x = %s, ...r3}" % self.prim(d + 1), "[x, , y = %s]" % self.prim(d + 1)])

    def directives(self, params=""):
        r = self.r
        x = r.random()
        if x < 0.7:
            return ""
        simple = not any(c in params for c in "={[.")
        if not simple:
            # 'use strict' is illegal in a function with a non-simple parameter list
            return r.choice(["'other';", "'use asm';", "('use strict');", "'a'; 'b';"]) + " "
        return r.choice(["'use strict';", '"use strict";', "'use strict'\n", "'other'; 'use strict';",
                         "'use strict'; 'other';", "'use asm';", "('use strict');", "'a'; 'b'; \"use strict\";"]) + " "

    def expr_stmt(self, d):
        ex = self.expr(d)
        if ex.lstrip().startswith(("{", "function", "class", "async function", "let[", "let [")):
            ex = "(" + ex + ")"
        return ex

    def sub_stmt(self, d):
        """a statement for a single-statement position (no declarations there)"""
        for _ in range(6):
            st = self.stmt(d)
            if not st.lstrip().startswith(("class ", "function", "async function", "let ", "const ", "lb", "/*", "//")):
                return st
        return self.expr_stmt(d) + ";"

    def fparams(self, d):
        """a parameter list: await / yield / super are not legal in it"""
        sv = (self.in_async, self.in_gen)
        self.in_async = self.in_gen = False
        try:
            return self.params(d)
        finally:
            self.in_async, self.in_gen = sv

    def fbody(self, d, ps, n, is_async=False, is_gen=False, derived=None, directives=True, ret=None):
        """a function body: `return` legal, await / yield legal as the kind says; ret: an expression generator for a final return"""
        sv = (self.in_async, self.in_gen, self.in_derived)
        self.in_async, self.in_gen = is_async, is_gen
        if derived is not None:
            self.in_derived = derived
        self.fn_depth += 1
        try:
            out = (self.directives(ps) if directives else "") + (self.stmts(d + 1, n) if n else "")
            if ret:
                out += "return %s" % self.expr(d + 1)
            return out
        finally:
            self.fn_depth -= 1
            self.in_async, self.in_gen, self.in_derived = sv

    def var(self):
        self.nvar += 1
        return "v%d" % self.nvar

    def stmt(self, d):
        r = self.r
        if d >= self.max_depth:
            return self.expr(d) + ";"
        x = r.random()
        e = lambda: self.expr(d + 1)  # noqa
        body = lambda: self.stmts(d + 1, r.choice([1, 1, 2]))  # noqa
        if x < 0.22:
            return self.expr_stmt(d + 1) + ";"
        if x < 0.34:
            kind = r.choice(["const", "let", "var"])
            v = self.var
            return "%s %s = %s;" % (kind, r.choice([v(), v(), v(), "{%s}" % v(), "[%s, %s]" % (v(), v()), "{%s = %s, ...%s}" % (v(), self.prim(d + 1), v()),
                                                    "[%s = %s, , %s]" % (v(), self.prim(d + 1), v()), "{k: {%s}}" % v()]), self.assign_expr(d + 1))
        if x < 0.40:
            return ("return %s;" % e()) if self.fn_depth > 0 else self.expr_stmt(d + 1) + ";"
        if x < 0.46:
            return "if (%s) { %s }%s" % (e(), body(), r.choice(["", " else { %s }" % body(), " else %s" % self.sub_stmt(d + 1)]))
        if x < 0.50:
            return "if (%s) %s%s" % (e(), self.sub_stmt(d + 1), r.choice(["", " else %s" % self.sub_stmt(d + 1)]))
        if x < 0.54:
            return "for (let i = %s; i < %s; i += %s) { %s }" % (self.prim(d + 1), self.prim(d + 1), self.prim(d + 1), body())
        if x < 0.57:
            return "for (const k %s %s) %s" % (r.choice(["of", "in"]), self.assign_expr(d + 1), r.choice(["{ %s }" % body(), self.sub_stmt(d + 1)]))
        if x < 0.60:
            return "while (%s) { %s break; }" % (e(), body())
        if x < 0.62:
            return "do { %s } while (%s);" % (body(), e())
        if x < 0.66:
            return "switch (%s) { case %s: %s break; default: %s }" % (e(), self.prim(d + 1), body(), body())
        if x < 0.70:
            return "try { %s } catch%s { %s }%s" % (body(), r.choice([" (e)", " ({message})", ""]), body(),
                                                    r.choice(["", " finally { %s }" % body()]))
        if x < 0.72:
            return "throw %s;" % e()
        if x < 0.73:
            self.nlbl += 1
            lb = self.nlbl
            return "lbl%d: { %s }" % (lb, body())
        if x < 0.74:
            self.nlbl += 1
            lb = self.nlbl
            return r.choice(["lb%d: for (const k of %s) { %s continue lb%d; }" % (lb, self.assign_expr(d + 1), body(), lb), "debugger;",
                             "return;" if self.fn_depth > 0 else ";",
                             "if (%s) x(); else if (%s) y(); else { %s }" % (e(), e(), body()),
                             "switch (%s) { case 1: case %s: %s default: %s break; case 3: }" % (e(), self.prim(d + 1), body(), body()),
                             ("for await (const k of %s) { %s }" % (self.assign_expr(d + 1), body())) if self.in_async else "for (;;) { %s break; }" % body()])
        if x < 0.80:
            return self.function_decl(d)
        if x < 0.84:
            return self.class_decl(d)
        if x < 0.87:
            return "{ %s }" % body()
        if x < 0.89:
            return ";"
        return self.expr_stmt(d + 1) + ";"

    def function_decl(self, d):
        r = self.r
        kind = r.choice(["function", "function", "async function", "function*", "async function*"])
        ps = self.fparams(d)
        self.nvar += 1
        return "%s fn%d(%s) { %s }" % (kind, self.nvar, ps, self.fbody(d, ps, r.choice([1, 2, 3]), is_async="async" in kind,
                                                                      is_gen="*" in kind, derived=False))

    def class_decl(self, d):
        r = self.r
        sa, sg, sd = self.in_async, self.in_gen, self.in_derived
        self.in_async = self.in_gen = False
        heritage = r.choice(["", "", "extends K ", "extends K ", "extends f(%s) " % self.prim(d + 1)])
        self.in_derived = bool(heritage)
        members = []
        for _ in range(r.choice([1, 2, 3])):
            x = r.random()
            if x < 0.06 and not any(m.startswith("#pv") for m in members):
                members.append("#pv = %s; getPv() { return this.#pv + %s; }" % (self.assign_expr(d + 1), self.prim(d + 1)))
            elif x < 0.12:
                ps = self.fparams(d)
                members.append("%sasync am%d(%s) { %s }" % (r.choice(["", "static "]), r.randint(1, 3), ps, self.fbody(d, ps, 2, is_async=True)))
            elif x < 0.16:
                members.append("*gm%d() { %s }" % (r.randint(1, 3), self.fbody(d, "", 2, is_gen=True)))
            elif x < 0.3:
                ps = self.fparams(d)
                members.append("m%d(%s) { %s }" % (r.randint(1, 3), ps, self.fbody(d, ps, 2)))
            elif x < 0.45:
                members.append("static s%d = %s;" % (r.randint(1, 3), self.assign_expr(d + 1)))
            elif x < 0.6:
                members.append("f%d = %s;" % (r.randint(1, 3), self.assign_expr(d + 1)))
            elif x < 0.7:
                sv = (self.fn_depth, self.in_async, self.in_gen)
                self.fn_depth, self.in_async, self.in_gen = 0, False, False       # no return / await / yield in a static block
                members.append("static { %s }" % self.stmts(d + 1, 2))
                self.fn_depth, self.in_async, self.in_gen = sv
            elif x < 0.8:
                members.append("get g%d() { %s }" % (r.randint(1, 3), self.fbody(d, "", 1)))
            elif x < 0.9:
                self.in_derived = False           # a computed key is evaluated outside the class body
                key = self.prim(d + 1)
                self.in_derived = bool(heritage)
                members.append("[%s]() { %s }" % (key, self.fbody(d, "", 1, directives=False)))
            elif heritage:
                ps = self.fparams(d)
                members.append("constructor(%s) { super(%s); %s }" % (ps, self.args(d), self.fbody(d, ps, 2, directives=False)))
            else:
                ps = self.fparams(d)
                members.append("constructor(%s) { %s }" % (ps, self.fbody(d, ps, 2)))
        # at most one constructor
        seen = False
        out = []
        for m in members:
            if m.startswith("constructor"):
                if seen:
                    continue
                seen = True
            out.append(m)
        self.in_async, self.in_gen, self.in_derived = sa, sg, sd
        return "class C%d %s{ %s }" % (r.randint(1, 3), heritage, " ".join(out))

    def comment(self):
        r = self.r
        if r.random() < 0.85:
            return ""
        return r.choice(["/* c */ ", "// line comment\n", "/** @type {string} */ ", "/* multi\n   line */ ", "/*! keep */ ",
                         "// \u00e9\u4e2d\n", "/* //# sourceMappingURL=not-a-reference */ "])

    def stmts(self, d, n):
        nl = "\n" if self.multiline else " "
        return nl.join(self.comment() + self.stmt(d) for _ in range(n))

    def program(self):
        r = self.r
        kind = r.random()
        wrap = kind > 0.5
        ps = ""
        if wrap:
            self.fn_depth = 1
            ps = self.params(0)
        body = self.directives(ps) + self.stmts(0, r.choice([1, 2, 3, 4, 6]))
        if kind < 0.15:
            body = "import z from 'm';\n" + body + "\nexport default z;"
        if wrap:
            # wrap most programs in a function: operations outside any block are out of scope for C04
            body = "function main(%s) { %s%s }" % (ps, self.directives(ps), body)
        return body


def program(rng, **kw):
    return Gen(rng, **kw).program()


# ------------------------------------------------------------------ systematic placements
SEED_OPS = [
    ("plus", "a + b"), ("plus_call", "a + f()"), ("pluseq", "a += f()"), ("pluseq_member", "o.x += b"),
    ("tpl", "`x${a}y${f()}`"), ("tpl_lit", "`x${1}${a + b}`"), ("member", "a.trim(b)"),
    ("member_call_recv", "f().concat(a, b)"), ("paren_recv", "(a || b).trim()"), ("array_recv", "[a, b].concat(c)"),
    ("lit_recv", "'lit'.concat(a)"), ("lit_recv_other", "'lit'.trim()"), ("member_recv", "o.x.trim()"),
    ("proto_recv", "String.prototype.trim()"), ("optcall", "a?.trim(b)"), ("optcall_deep", "o.x?.y.trim().z"),
    ("opt_invoke", "a.trim?.()"), ("proto_call", "String.prototype.concat.call(a, b)"),
    ("proto_apply", "String.prototype.concat.apply(a, [b, c])"), ("proto_apply_nonarr", "String.prototype.concat.apply(a, b)"),
    ("proto_spread", "String.prototype.concat.call(...a)"), ("bare", "aloneMethod(a)"), ("bare_no", "encodeURI(a)"),
    ("computed", "a[trim](b)"), ("unlisted", "a.foo(b)"), ("spread_arg", "a.concat(...b, c)"),
    ("nested", "a.trim() + `${b.concat(c)}`"), ("litsum", "'x' + 'y' + a"), ("litonly", "'x' + 'y'"),
    ("delete", "delete a.trim().x"), ("new_recv", "new K().trim()"), ("this_recv", "this.trim()"),
    ("spread_call", "a.concat(...f(), c)"), ("spread_array", "a.concat(...[b, c])"), ("spread_new", "a.concat(...new K())"),
    ("spread_member", "a.concat(...o.x, ...b)"), ("apply_extra_args", "String.prototype.concat.apply(a, [b], g())"),
    ("apply_nested_array", "String.prototype.concat.apply(a, [[b, c], d])"), ("apply_hole", "String.prototype.concat.apply(a, [b, , c])"),
    ("apply_spread_elem", "String.prototype.concat.apply(a, [b, ...c])"), ("call_extra", "String.prototype.trim.call(a, b, f())"),
    ("path_call_root", "f().substring.call(g(), 1)"), ("static_path", "o.x.substring.call(b, 1)"),
    ("seq_in_tpl", "`${a, b}`"), ("pluseq_litsum", "a += 1 + 2"), ("pluseq_compound", "o.x.y += b"),
    ("unary_operand", "a + -b"), ("cond_operand", "f() + (c ? 'k' : g() + h())"), ("regex_arg", "a.replace(/x/g, b)"),
    ("lit_spread", "a.concat(...'xy')"), ("require_noargs", "require() + a"), ("require_spread", "require(...a) + b"),
    ("new_regexp_noargs", "new RegExp + a"), ("new_regexp_args", "new RegExp(a, 'a long flag-like literal') + b"), ("opt_in_arg", "a?.trim(b?.trim())"), ("opt_callee", "f?.(a?.trim())"),
    ("opt_proto_recv", "String?.prototype.substring(1)"), ("opt_proto_member", "o.x?.prototype.trim()"),
    ("opt_call_member_callee", "o?.x.y?.(a).trim()"), ("pluseq_computed_sum", "o[a + b] += c"),
    ("apply_surplus_array", "String.prototype.concat.apply(a, [b], [c], d)"),
    ("lit_recv_pad_end", "'lit'.padEnd(a, b) + a.padEnd(3)"), ("lit_recv_replace_all", "'lit'.replaceAll(a, 'b') + 'lit'.replaceAll('x', 'y')"),
    ("escaped_method", "a.\\u0073ubstring(1)"), ("escaped_method_opt", "a?.\\u{74}rim()"), ("proto_mid_path", "K.prototype.name.trim() + o.prototype.x?.trim()"),
    ("same_path_twice", "o.x + o.x"), ("same_path_call", "o.x.concat(o.x, o.x)"), ("tpl_no_subst", "`use strict` + a"),
    ("tpl_nested_plain", "`${a}${`-`}`"), ("tpl_nested_plain_ops", "`${`x`}${a + b}${c.trim()}`"), ("tpl_nested_plain_only", "`${`x`}` + a"),
    ("chain_callee", "(a?.trim().f)(b)"), ("chain_tag", "(a?.trim().f)`x${b}`"), ("chain_callee_unhooked", "(a?.g(b?.trim()).f)(c)"),
    ("lit_plus_undefined", "'a' + undefined + c"), ("plus_undefined", "'Hello ' + undefined"), ("tpl_undefined", "`${'a' + undefined}${c}`"),
    ("proto_call_nested", "String.prototype.concat.call(a.trim(), b.trim())"), ("proto_apply_nested", "String.prototype.concat.apply(a.trim(), [b.trim(), c + d])"),
    ("pluseq_paren", "(a) += b"), ("pluseq_paren_member", "(o.x) += f()"), ("pluseq_super", "super.x += b"), ("pluseq_super_computed", "super[k] += `t${a}`"),
    ("pluseq_this", "this.x += a"), ("pluseq_private", "this.#p += a"),
    ("delete_optchain", "delete a?.b.substring(1).x"), ("delete_computed", "delete o[a + b]"),
    ("path_call_computed", "o[f()].substring.call(g(), 1)"), ("path_apply_computed", "o[f()].x.concat.apply(g(), [b])"),
    ("tpl_marker_line", "a + `\n//# sourceMappingURL=${b}`"), ("str_marker_line", "a.concat('\\\n//# sourceMappingURL=x.map')"),
    ("tpl_nonascii_escape", "`\u00ab\\x60${a}\\x60\u00bb\\x24{b}\\x5c`"), ("str_nonascii", "a + '\u00e9\\x27\u2028' + b"),
]

# operand chains longer than any plausible depth limit (run in a few contexts only: they are expensive to judge)
LONG_OPS = [("long_chain", "a" + " + b" * 150), ("long_chain_calls", " + ".join("f(%d)" % i for i in range(140))),
            ("long_concat_calls", "a" + ".concat(b)" * 140)]

CONTEXTS = [
    ("top", "%s;"), ("top_decl", "const v = %s;"), ("block", "{ %s; }"), ("fn_body", "function m() { %s; }"),
    ("fn_return", "function m() { return %s; }"), ("decl_init", "function m() { const v = %s; }"),
    ("if_test_braced", "function m() { if (%s) { x(); } }"), ("if_test_unbraced", "function m() { if (%s) x(); }"),
    ("if_cons_unbraced", "function m() { if (c) v = %s; }"), ("if_alt_unbraced", "function m() { if (c) x(); else v = %s; }"),
    ("if_alt_braced", "function m() { if (c) { x(); } else { v = %s; } }"),
    ("else_if_test", "function m() { if (c) x(); else if (%s) y(); }"),
    ("for_init", "function m() { for (let i = %s; i < 3; i++) {} }"), ("for_test", "function m() { for (;%s;) { break; } }"),
    ("for_update", "function m() { for (;;v = %s) { break; } }"), ("for_body_unbraced", "function m() { for (;;) v = %s; }"),
    ("for_of_head", "function m() { for (const k of %s) {} }"), ("for_in_body", "function m() { for (const k in o) { v = %s; } }"),
    ("while_test", "function m() { while (%s) { break; } }"), ("do_test", "function m() { do { x(); } while (%s); }"),
    ("switch_disc", "function m() { switch (%s) { default: } }"), ("case_test", "function m() { switch (c) { case %s: break; } }"),
    ("case_body", "function m() { switch (c) { case 1: v = %s; } }"),
    ("try", "function m() { try { v = %s; } catch (e) {} }"), ("catch", "function m() { try { x(); } catch (e) { v = %s; } }"),
    ("finally", "function m() { try { x(); } finally { v = %s; } }"), ("label", "function m() { l1: v = %s; }"),
    ("throw", "function m() { throw %s; }"), ("call_arg", "function m() { x(%s); }"), ("array_elem", "function m() { v = [1, %s]; }"),
    ("obj_value", "function m() { v = { k: %s }; }"), ("cond_arm", "function m() { v = c ? %s : 1; }"),
    ("seq", "function m() { v = (x(), %s); }"), ("logical", "function m() { v = c && %s; }"),
    ("super_arg", "class C extends K { constructor(a, b) { super(%s); } }"), ("import_arg", "async function m() { return await import(%s); }"),
    ("super_member_arg", "class C extends K { m(a, b) { return super.m(%s); } }"), ("new_arg", "function m() { return new K(%s); }"),
    ("tagged_arg", "function m() { return tag`x${%s}`; }"), ("yield_arg", "function* m() { yield %s; }"), ("await_arg", "async function m() { await %s; }"),
    ("tpl_directive_like", "function m() { `use strict`; return %s; }"), ("tpl_directive_like_arrow", "const fn = () => { 'ngInject'; `use strict`; return %s; };"),
    ("async_arrow_concise", "function m() { return async () => await g() + %s; }"), ("seq_nested", "function m() { y = f() + (%s, b); }"),
    ("stray_directive", "function m() { 'use strict'; var x = %s; 'use strict'; var y = a + f(); return y; }"),
    ("stray_string_stmt", "function m() { v = %s; 'not a directive'; { w = a + f(); 'x'; } }"),
    ("derived_method", "class C extends K { #p = 1; m(a, b, k) { return %s; } }"),
    ("class_method", "class C { m() { return %s; } }"), ("class_static_field", "function m() { class C { static s = %s; } }"),
    ("class_field", "function m() { class C { f = %s; } }"), ("class_field_top", "class C { f = %s; }"),
    ("class_computed_key", "function m() { class C { [%s]() {} } }"),
    ("class_static_block", "class C { static { v = %s; } }"), ("obj_method", "const o2 = { m() { return %s; } };"),
    ("getter", "const o2 = { get g() { return %s; } };"),
    ("closure", "function m() { return function () { return %s; }; }"), ("arrow_expr_body", "function m() { return () => %s; }"),
    ("arrow_expr_body_top", "const fn = () => %s;"), ("arrow_block", "const fn = () => { return %s; };"),
    ("arrow_param_default", "function m() { return (x = %s) => x; }"), ("fn_param_default", "function m() { function n(x = %s) { return x; } }"),
    ("fn_param_default_top", "function n(x = %s) { return x; }"),
    ("generator", "function* m() { yield %s; }"), ("async", "async function m() { await %s; }"),
    ("tpl_with_lit", "function m() { v = `${1}${%s}`; }"), ("tagged_tpl", "function m() { v = tag`${%s}`; }"),
    ("delete_operand", "function m() { delete (%s).x; }"), ("new_arg", "function m() { v = new K(%s); }"),
    ("strict_fn", "function m() { 'use strict'; return %s; }"), ("two_directives", "function m() { 'other'; 'use strict'; return %s; }"),
    ("module", "import z from 'm'; export function m() { return %s; }"),
    ("nested_blocks", "function m() { { { v = %s; } } }"), ("paren", "function m() { v = ((%s)); }"),
    ("fn_param_default_in_expr", "function m() { return o.x + h(function (x, pre = %s) { return pre + x; }); }"),
    ("method_param_default_in_expr", "function m() { return f() + g({ k(x, pre = %s) { return pre; } }); }"),
    ("class_field_in_expr", "function m() { return f() + new (class { fld = %s; })().fld; }"),
    ("arrow_default_in_expr", "function m() { return f() + h((x = %s) => x); }"),
    ("curried_arrow", "function m() { return x => y => %s; }"), ("arrow_returning_fn", "function m() { return x => function () { return %s; }; }"),
    ("getter_directive", "const o2 = { get g() { 'use strict'; return %s; } };"),
    ("setter_directive", "const o2 = { set g(x) { 'other'; 'use strict'; v = %s; } };"),
    ("obj_method_directive", "const o2 = { m() { \"use strict\"; return %s; } };"),
    ("class_method_directive", "class C { m() { 'use strict'; 'other'; return %s; } }"),
    ("ctor_directive", "class C { constructor() { 'other'; 'use strict'; this.v = %s; } }"),
    ("arrow_block_directive", "const fn = () => { 'use strict'; return %s; };"),
    ("fn_expr_directive", "const fn = function () { 'a'; 'b'; 'use strict'; return %s; };"),
    ("class_getter_directive", "class C { get g() { 'use strict'; return %s; } static set s(x) { 'use strict'; v = %s; } }"),
    ("program_directives", "'other'; 'use strict'; function m() { return %s; }"),
    ("module_directive", "'use strict'; import z from 'm'; export function m() { return %s; }"),
    ("generator_directive", "function* m() { 'use strict'; yield %s; }"),
    ("async_arrow_directive", "const fn = async () => { 'use strict'; await %s; };"),
]


def systematic():
    """every seed operation in every statement context: (name, code)"""
    out = []
    for cn, ctx in CONTEXTS:
        for on, op in SEED_OPS:
            out.append(("%s/%s" % (cn, on), ctx.replace("%s", op)))
    return out
