#!/usr/bin/env python3
"""ad-hoc probe: rw.py 'code' [json-config-overrides] -> prints content/metrics"""
import json, subprocess, sys, os
HERE = os.path.dirname(os.path.dirname(os.path.abspath(__file__)))
FULL = {"localVarPrefix": "p", "telemetryVerbosity": "DEBUG", "csiMethods": [
    {"src": "plusOperator", "operator": True}, {"src": "tplOperator", "operator": True},
    {"src": "trim"}, {"src": "concat"}, {"src": "substring", "dst": "stringSubstring"}, {"src": "replace"},
    {"src": "aloneMethod", "allowedWithoutCallee": True}]}
def run(reqs):
    p = subprocess.run([os.path.join(HERE, "target/release/driver")], input="\n".join(json.dumps(r) for r in reqs) + "\n",
                       capture_output=True, text=True)
    return [json.loads(l) for l in p.stdout.splitlines() if l.strip()]
if __name__ == "__main__":
    cfg = dict(FULL)
    if len(sys.argv) > 2:
        cfg.update(json.loads(sys.argv[2]))
    file = sys.argv[3] if len(sys.argv) > 3 else "/w/test.js"
    r = run([{"id": "x", "code": sys.argv[1], "file": file, "config": cfg, "want": ["events"]}])[0]
    c = r.get("content", "")
    i = c.find("}((1, eval)('this')));")
    if i >= 0: c = "<PROLOGUE>" + c[i + 22:]
    j = c.find("//# sourceMappingURL=data")
    if j >= 0: c = c[:j] + "<TRAILER>"
    print(r["outcome"], r.get("error") or "", json.dumps(r.get("metrics")))
    print(c)
    if os.environ.get("EV"): print(r.get("events"))
    if r.get("literals") and r["literals"]["literals"]: print(json.dumps(r["literals"]))
