#!/usr/bin/env python3
"""shrink.py <replay.json | 'code'> <PROP> [config-json]  -- greedy token-level reduction of a program that keeps the
verdict `reject` of property PROP in the static pipeline (all candidates of a round are judged by one TLC run)."""
import json, sys, os
sys.path.insert(0, os.path.dirname(os.path.abspath(__file__)))
import static_pipeline as sp

src, prop = sys.argv[1], sys.argv[2]
if os.path.exists(src):
    d = json.load(open(src))
    code, cfg = d["case"]["code"], d["case"]["config"]
else:
    code, cfg = src, (json.loads(sys.argv[3]) if len(sys.argv) > 3 else sp.FULL_CFG)
want = sys.argv[4] if len(sys.argv) > 4 else "reject"


def rejects(codes):
    res = sp.run(1, "quick", extra_cases=[{"name": "s%d" % i, "code": c, "config": cfg} for i, c in enumerate(codes)])
    out = {}
    for rid, v, dd in res["verdicts"].get(prop, []):
        out[int(rid[1:])] = (v, dd)
    return [out.get(i, ("none", ""))[0] == want for i in range(len(codes))], out


import re
toks = re.findall(r"\s+|[A-Za-z_$][\w$]*|\d[\w.]*|`|\$\{|\.\.\.|\?\.|=>|[^\sA-Za-z_$\d]", code)
ok, info = rejects([code])
if not ok[0]:
    print("the program is not rejected for", prop, info); sys.exit(1)
size = max(1, len(toks) // 2)
while size >= 1:
    progress = True
    while progress and len(toks) > 1:
        progress = False
        cands = []
        for i in range(0, len(toks), size):
            cands.append(toks[:i] + toks[i + size:])
        res, _ = rejects(["".join(c) for c in cands])
        for c, r in zip(cands, res):
            if r and len(c) < len(toks):
                toks = c
                progress = True
                break
        sys.stderr.write("size %d tokens %d\n" % (size, len(toks)))
    size //= 2
final = "".join(toks)
_, info = rejects([final])
print(final)
print(info.get(0))
