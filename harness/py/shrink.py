#!/usr/bin/env python3
"""shrink.py <replay.json | 'code'> <PROP> [config-json]  -- greedy token-level reduction of a program that keeps the
verdict `reject` of property PROP in the static pipeline (all candidates of a round are judged by one TLC run)."""
import json, sys, os
sys.path.insert(0, os.path.dirname(os.path.abspath(__file__)))
import static_pipeline as sp

src, prop = sys.argv[1], sys.argv[2]
if os.path.exists(src):
    d = json.load(open(src))
    code, cfg = d["case"]["code"], d["case"]["config"]
else:
    code, cfg = src, (json.loads(sys.argv[3]) if len(sys.argv) > 3 else sp.FULL_CFG)
want = sys.argv[4] if len(sys.argv) > 4 else "reject"


def rejects(codes):
    res = sp.run(1, "quick", extra_cases=[{"name": "s%d" % i, "code": c, "config": cfg} for i, c in enumerate(codes)])
    out = {}
    for rid, v, dd in res["verdicts"].get(prop, []):
        out[int(rid[1:])] = (v, dd)
    return [out.get(i, ("none", ""))[0] == want for i in range(len(codes))], out


import re
toks = re.findall(r"\s+|[A-Za-z_$][\w$]*|\d[\w.]*|`|\$\{|\.\.\.|\?\.|=>|[^\sA-Za-z_$\d]", code)
ok, info = rejects([code])
if not ok[0]:
    print("the program is not rejected for", prop, info); sys.exit(1)
size = max(1, len(toks) // 2)
while size >= 1:
    progress = True
    rounds = 0
    while progress and len(toks) > 1 and rounds < 6:
        rounds += 1
        progress = False
        starts = list(range(0, len(toks), size))
        cands = [toks[:i] + toks[i + size:] for i in starts]
        res, _ = rejects(["".join(c) for c in cands])
        good = [i for i, r in zip(starts, res) if r]
        if good:
            # all successful removals at once; fall back to halves of them, then to the first one
            trial = good
            while trial:
                keep = [t for j, t in enumerate(toks) if not any(i <= j < i + size for i in trial)]
                if rejects(["".join(keep)])[0][0]:
                    toks = keep
                    progress = True
                    break
                trial = trial[:len(trial) // 2]
        sys.stderr.write("size %d tokens %d\n" % (size, len(toks)))
    size //= 2
final = "".join(toks)
_, info = rejects([final])
print(repr(final))
print(info.get(0))
