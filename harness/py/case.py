#!/usr/bin/env python3
"""ad-hoc: case.py 'code' ['config-json'|full] -> rewrite output + TraceStatic verdicts"""
import sys, json, os
sys.path.insert(0, os.path.dirname(os.path.abspath(__file__)))
import vlib, static_pipeline as sp
code = sys.argv[1]
cfg = sp.FULL_CFG if len(sys.argv) < 3 or sys.argv[2] == "full" else json.loads(sys.argv[2])
res = sp.run(1, "quick", extra_cases=[{"name": "adhoc", "code": code, "config": cfg}])
c = res["cases"]["r0"]
out = c.get("content") or ""
i = out.find("}((1, eval)('this')));")
if i >= 0: out = "<PROLOGUE>" + out[i + 22:]
j = out.find("//# sourceMappingURL=data")
if j >= 0: out = out[:j] + "<TRAILER>"
print(c["outcome"], c.get("error") or "", json.dumps(c.get("metrics")))
print(out.replace("__datadog_", "T"))
for prop, vs in sorted(res["verdicts"].items()):
    for rid, v, d in vs:
        print(prop, v, d[:300])
