#!/usr/bin/env python3
"""shape.py 'code' -> the uniform tree of the parsed text (kinds, values, attributes), one node per line"""
import sys, json
sys.path.insert(0, '/verif/harness/py')
import vlib, norm
code = sys.argv[1]
r = vlib.run_requests([{"id": "x", "op": "parse", "code": code, "file": "/w/t.js"}], nproc=1)[0]
ast = r.get("ast") or r.get("in_ast")
if ast is None:
    print(json.dumps(r)[:500]); sys.exit(1)
t = norm.normalise(ast if isinstance(ast, dict) else json.loads(ast), "__datadog_p_", code)
def show(n, d=0):
    print("  " * d + "%s v=%r a=%r" % (n["t"], n.get("v", ""), n.get("a", "")))
    for c in n["c"]:
        show(c, d + 1)
show(t)
