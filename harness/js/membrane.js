#!/usr/bin/env node
// Effect-logging membrane runner.  See MEMBRANE_SPEC.md (same directory).
//
//   node --experimental-vm-modules membrane.js < jobs.ndjson > results.ndjson
//   const { runJob } = require('./membrane.js');   // runJob(job) -> Promise<result>
//
// Design notes
//  * Every run (input / output, per scenario) gets a fresh vm context with its OWN microtask queue
//    (microtaskMode:'afterEvaluate'): promise jobs of the program only run inside a
//    Script.runInContext / Module.evaluate call and are therefore covered by the vm timeout, so an
//    `async` endless loop cannot starve the host event loop.
//  * All program code is entered through Script.runInContext / Module.evaluate with `timeout`
//    (the entry call and generator `.next` calls go through a tiny trampoline script).
//  * Membrane objects are Proxies over a *bound* function (callable + constructible, and no
//    non-configurable own properties, so every trap answer satisfies the Proxy invariants).
'use strict';
const vm = require('vm');
const util = require('util');

const LOG_CAP = 400;          // events per log (and hook events per run)
const TIMEOUT_MS = 200;       // vm timeout for every entry into program code
const SETTLE_ROUNDS = 6;      // drain/tick rounds when waiting for a promise (deterministic "200 ms")
const STR_CLIP = 300, ARR_CLIP = 40;
const K_METHODS = ['trim', 'concat', 'substring', 'replace', 'slice', 'toUpperCase', 'padStart', 'repeat', 'foo', 'bar'];
const ERR_CLASSES = ['TypeError', 'RangeError', 'Error', 'ReferenceError', 'SyntaxError', 'EvalError', 'URIError'];
const HAS_MODULES = typeof vm.SourceTextModule === 'function' && typeof vm.SyntheticModule === 'function';
const IDENT = /^[A-Za-z_$][A-Za-z0-9_$]*$/;
const OVERFLOW = Object.freeze({ membrane: 'overflow' });   // thrown into the program when a log is full
const TIMEOUT = Object.freeze({ membrane: 'timeout' });     // internal: promise never settled
const THUNK = '__membrane_thunk__';
// displayErrors:false => node does not decorate (i.e. read `.stack` of) values thrown out of the
// script, which would otherwise show up as a spurious `get stack` on a thrown membrane object.
const RUN_OPTS = Object.freeze({ timeout: TIMEOUT_MS, displayErrors: false });

// Rejections of program promises nobody handles must not kill the runner.
// (Only while a job is active; otherwise, if nobody else listens, re-raise like node's default.)
let activeJobs = 0;
process.on('unhandledRejection', (e) => {
  if (activeJobs > 0 || process.listenerCount('unhandledRejection') > 1) return;
  setImmediate(() => { throw e; });
});
process.on('rejectionHandled', () => {});   // (suppresses PromiseRejectionHandledWarning noise)

// Evaluated once in every fresh context (context-realm K / tag, deterministic Date / Math.random).
const BOOT = new vm.Script(`(function (h, methods) {
  'use strict';
  const def = (o, k, v) => Object.defineProperty(o, k, { value: v, writable: true, enumerable: false, configurable: true });
  class K { constructor(...a) { h.kNew(this, a); } }
  for (const m of methods) {
    def(K.prototype, m, ({ [m](...a) { return h.kCall(m, this, a); } })[m]);
    h.named(K.prototype[m], 'K.prototype.' + m);
  }
  h.named(K, 'K'); h.named(K.prototype, 'K.prototype');
  const tag = function tag(...a) { return h.tagCall(this, a); };
  h.named(tag, 'tag');
  def(Math, 'random', function random() { return 0.5; });
  const RD = Date;
  const D = function Date(...a) {
    if (!new.target) return new RD(0).toString();
    return Reflect.construct(RD, a.length ? a : [0], new.target);
  };
  Object.defineProperty(D, 'prototype', { value: RD.prototype, writable: false, enumerable: false, configurable: false });
  def(D, 'now', function now() { return 0; }); def(D, 'parse', RD.parse); def(D, 'UTC', RD.UTC);
  def(RD.prototype, 'constructor', D); def(globalThis, 'Date', D);
  // the SOURCE TEXT of a function of the program is data the rewriter legitimately changes (it reformats
  // and instruments the text): a run that reads it (explicitly or by coercing a function to a string)
  // is marked and not compared
  const FT = Function.prototype.toString;
  def(Function.prototype, 'toString', function toString() {
    const s = FT.call(this);
    if (!/\\{\\s*\\[native code\\]\\s*\\}$/.test(s)) h.srcText();
    return s;
  });
  const intr = { FunctionPrototype: Function.prototype };
  for (const n of h.errClasses) intr[n] = globalThis[n];
  return { K, tag, intr };
})`, { filename: 'membrane-boot.js' });
// Trampoline: runs a host thunk inside a timed runInContext.
const TRAMPOLINE = new vm.Script(`(function () { const t = this.${THUNK}; delete this.${THUNK}; return t(); }).call(this)`,
  { filename: 'membrane-trampoline.js' });
const EMPTY = new vm.Script('', { filename: 'membrane-drain.js' });   // running it drains the context's microtasks

const hasOwn = (o, k) => Object.prototype.hasOwnProperty.call(o, k);
const tick = () => new Promise((r) => setImmediate(r));
const keyStr = (k) => (typeof k === 'symbol' ? '@@' + (k.description === undefined ? '' : k.description) : String(k));
const clip = (s) => (s.length > STR_CLIP ? s.slice(0, STR_CLIP) + '…(' + s.length + ')' : s);
const reSource = Object.getOwnPropertyDescriptor(RegExp.prototype, 'source').get;
const reFlags = Object.getOwnPropertyDescriptor(RegExp.prototype, 'flags').get;

// ---------------------------------------------------------------------------------------------
// One run = one fresh realm + log.
// ---------------------------------------------------------------------------------------------
function newRun(job, resp, side) {
  const R = {
    side, resp: resp && typeof resp === 'object' ? resp : {},
    log: [], effs: [], hooks: [], overflow: false, depth: 0, shadow: false, primHist: [], shadowPtr: 0, proxies: new WeakSet(),
    counters: new Map(),
    ids: new WeakMap(),      // membrane proxy / named realm object -> canonical id
    targets: new WeakMap(),  // proxy target -> { id, proxy }
    stable: new Map(),       // "<id>.prototype" / "<id>.constructor" -> membrane
    sandbox: {}, ctx: null, intr: null, getEntry: null, nsEntry: null,
  };
  R.ctx = vm.createContext(R.sandbox, { name: 'membrane-' + side, microtaskMode: 'afterEvaluate' });

  const count = (key) => { const n = (R.counters.get(key) || 0) + 1; R.counters.set(key, n); return n; };
  // Append one event (eff = effect id or null).  Throws OVERFLOW when the log is full.
  const emit = (ev, eff) => {
    if (R.log.length >= LOG_CAP) { R.overflow = true; throw OVERFLOW; }
    R.log.push(ev); R.effs.push(eff || null);
  };

  function repr(v, depth) {
    depth = depth || 0;
    switch (typeof v) {
      case 'string': return 's:' + clip(v);
      case 'number': return 'number:' + (Object.is(v, -0) ? '-0' : String(v));
      case 'bigint': case 'boolean': case 'undefined': return typeof v + ':' + String(v);
      case 'symbol': return 'sym';
    }
    if (v === null) return 'object:null';
    const id = R.ids.get(v);
    if (id !== undefined) return '@' + id;
    if (typeof v === 'function') return 'fn';
    try {
      if (Array.isArray(v)) {
        if (depth >= 3) return '[..]';
        const items = [];
        const n = Math.min(v.length, ARR_CLIP);
        for (let i = 0; i < n; i++) items.push(repr(v[i], depth + 1));
        if (v.length > n) items.push('…(' + v.length + ')');
        let s = '[' + items.join(',') + ']';
        // template objects (tagged templates): also show the raw strings
        const raw = Object.getOwnPropertyDescriptor(v, 'raw');
        if (raw && Array.isArray(raw.value)) s += 'raw' + repr(raw.value, depth + 1);
        return s;
      }
      if (util.types.isRegExp(v)) return 're:' + reSource.call(v) + '/' + reFlags.call(v);
    } catch (e) { if (e === OVERFLOW) throw e; }
    return 'obj';
  }
  const reprs = (a) => Array.prototype.map.call(a, (x) => repr(x));

  const thrown = (name) => new (R.intr[name] || R.intr.Error)('scenario');
  const plainValue = (r, mkObj) => {
    switch (r && r.k) {
      case 'undef': return undefined;
      case 'null': return null;
      case 'str': return String(r.v);
      case 'num': return Number(r.v);
      case 'throw': throw thrown(r.v);
      default: return mkObj();
    }
  };
  // Answer effect `eff` according to the scenario; mkDefault builds the default answer.
  function answer(eff, kind, mkDefault) {
    const r = hasOwn(R.resp, eff) ? R.resp[eff] : null;
    if (!r || typeof r !== 'object') return mkDefault();
    switch (r.k) {
      case 'reenter':
        if (kind === 'call') reenter();
        return mkDefault();
      case 'assign':
        if ((kind === 'call' || kind === 'get') && typeof r.name === 'string') {
          const n = count('assign|' + r.name);
          R.sandbox[r.name] = plainValue(r.to, () => mk('assign:' + r.name + '#' + n));
        }
        return mkDefault();
      default:
        return plainValue(r, mkDefault);
    }
  }
  function reenter() {
    if (R.depth >= 2) return;
    let fn; try { fn = lookupEntry(R); } catch (e) { fn = undefined; }
    if (typeof fn !== 'function') return;
    const n = count('reenter');
    emit({ e: 'reenter' });
    R.depth++;
    try { Reflect.apply(fn, mk('re' + n + '.thisArg'), [mk('re' + n + '.arg0'), mk('re' + n + '.arg1'), mk('re' + n + '.arg2')]); }
    finally { R.depth--; emit({ e: 'leave' }); }
  }

  // --- the membrane ------------------------------------------------------------------------
  const handler = {
    get(t, key) {
      const { id, proxy } = R.targets.get(t);
      if (typeof key === 'symbol') {
        if (key === Symbol.toPrimitive) {
          return (hint) => {
            // shadow mode (hook self-check): replay the last real coercion result, log nothing
            if (R.shadow) return R.shadowPtr < R.primHist.length ? R.primHist[R.shadowPtr++] : '<' + id + '>';
            const n = count('prim|' + id);
            emit({ e: 'prim', o: id, h: String(hint) }, 'prim:' + id + '#' + n);
            const v = answer('prim:' + id + '#' + n, 'prim', () => '<' + id + '>');
            const res = (v !== null && (typeof v === 'object' || typeof v === 'function')) ? '<' + id + '>' : v;
            R.primHist.push(res);
            return res;
          };
        }
        if (key === Symbol.iterator) {
          const n = count('iter|' + id);
          emit({ e: 'iter', o: id }, 'iter:' + id + '#' + n);
          return answer('iter:' + id + '#' + n, 'iter', () => () => {
            let i = 0;
            return {
              next() { return i < 2 ? { value: mk(id + '[' + (i++) + ']#' + n), done: false } : { value: undefined, done: true }; },
              [Symbol.iterator]() { return this; },
            };
          });
        }
        if (key === Symbol.toStringTag || key === Symbol.isConcatSpreadable || key === Symbol.asyncIterator) return undefined;
      } else {
        switch (key) {
          case 'call': return Function.prototype.call.bind(proxy);
          case 'apply': return Function.prototype.apply.bind(proxy);
          case 'bind': return Function.prototype.bind.bind(proxy);
          case 'then': case 'toString': case 'valueOf': case 'length': case 'name': return undefined;
        }
      }
      const k = keyStr(key);
      const n = count('get|' + id + '|' + k);
      const eff = 'get:' + id + '.' + k + '#' + n;
      emit({ e: 'get', o: id, k }, eff);
      if (key === 'prototype' || key === 'constructor') {
        return answer(eff, 'get', () => {
          const sid = id + '.' + k;
          if (!R.stable.has(sid)) R.stable.set(sid, mk(sid));
          return R.stable.get(sid);
        });
      }
      return answer(eff, 'get', () => mk(id + '.' + k + '#' + n));
    },
    set(t, key, v) { emit({ e: 'set', o: R.targets.get(t).id, k: keyStr(key), v: repr(v) }); return true; },
    deleteProperty(t, key) { emit({ e: 'delete', o: R.targets.get(t).id, k: keyStr(key) }); return true; },
    has(t, key) { emit({ e: 'has', o: R.targets.get(t).id, k: keyStr(key) }); return true; },
    apply(t, thisArg, args) {
      const id = R.targets.get(t).id;
      const n = count('call|' + id);
      const eff = 'call:' + id + '()#' + n;
      emit({ e: 'call', f: id, t: repr(thisArg), a: reprs(args) }, eff);
      return answer(eff, 'call', () => mk(id + '()#' + n));
    },
    construct(t, args) {
      const id = R.targets.get(t).id;
      const n = count('new|' + id);
      const eff = 'new:' + id + '{}#' + n;
      emit({ e: 'new', f: id, a: reprs(args) }, eff);
      return answer(eff, 'new', () => mk(id + '{}#' + n));   // non-object answers -> engine TypeError
    },
    ownKeys(t) {
      const id = R.targets.get(t).id;
      const n = count('keys|' + id);
      emit({ e: 'keys', o: id }, 'keys:' + id + '#' + n);
      return answer('keys:' + id + '#' + n, 'keys', () => ['x']) || ['x'];
    },
    getOwnPropertyDescriptor(t, key) {   // not logged; consistent with ownKeys
      return key === 'x' ? { value: undefined, writable: true, enumerable: true, configurable: true } : undefined;
    },
    defineProperty(t, key, desc) {       // not in the spec table: logged as "define"
      emit({ e: 'define', o: R.targets.get(t).id, k: keyStr(key), v: repr(desc && desc.value) });
      return !(desc && desc.configurable === false);
    },
    getPrototypeOf() { return R.intr.FunctionPrototype; },
    setPrototypeOf() { return true; },
    isExtensible() { return true; },
    preventExtensions() { return false; },
  };
  function mk(id) {
    const target = function () {}.bind(null);   // callable + constructible, no `prototype` property
    const proxy = new Proxy(target, handler);
    R.targets.set(target, { id, proxy });
    R.ids.set(proxy, id);
    R.proxies.add(proxy);
    return proxy;
  }

  // --- realm set-up ------------------------------------------------------------------------
  const host = {
    errClasses: ERR_CLASSES,
    named(o, id) { R.ids.set(o, id); },
    kNew(inst, args) {
      const n = count('new|K');
      const eff = 'new:K{}#' + n;
      emit({ e: 'new', f: 'K', a: reprs(args) }, eff);
      R.ids.set(inst, 'K{}#' + n);
      const r = hasOwn(R.resp, eff) ? R.resp[eff] : null;
      if (r && r.k === 'throw') throw thrown(r.v);
    },
    kCall(m, self, args) {
      const id = 'K.prototype.' + m;
      const n = count('call|' + id);
      const eff = 'call:' + id + '()#' + n;
      emit({ e: 'call', f: id, t: repr(self), a: reprs(args) }, eff);
      return answer(eff, 'call', () => mk(id + '()#' + n));
    },
    srcText() { R.srctext = true; },
    tagCall(self, args) {
      const n = count('call|tag');
      const eff = 'call:tag()#' + n;
      emit({ e: 'call', f: 'tag', t: repr(self), a: reprs(args) }, eff);
      return answer(eff, 'call', () => mk('tag()#' + n));
    },
  };
  const booted = BOOT.runInContext(R.ctx)(host, K_METHODS);
  R.intr = booted.intr;
  R.mk = mk; R.repr = repr; R.emit = emit;

  const g = R.sandbox;
  for (const name of Array.isArray(job.free) ? job.free : []) {
    if (typeof name !== 'string' || name === 'K' || name === 'tag' || name === 'aloneMethod' || name === '_ddiast') continue;
    const r = hasOwn(R.resp, 'var:' + name) ? R.resp['var:' + name] : null;
    if (r && r.k === 'unbound') continue;
    g[name] = r && r.k !== 'throw' ? plainValue(r, () => mk(name)) : mk(name);
  }
  g.K = booted.K; g.tag = booted.tag; g.aloneMethod = mk('aloneMethod');

  if (side === 'out' && job.ddiast !== 'absent') {
    const configured = new Set(Array.isArray(job.hooks) ? job.hooks : []);
    const fns = new Map();
    const ns = new Proxy({}, {
      get(t, name) {
        if (typeof name !== 'string') return undefined;
        if (!fns.has(name)) {
          fns.set(name, (...args) => {
            if (R.hooks.length >= LOG_CAP) { R.overflow = true; throw OVERFLOW; }
            // Self-check of the hook contract (property C03, dynamic half): is args[0] the value of the
            // original operation applied to the remaining arguments?  Re-computed in shadow mode (no
            // logging, coercions replay their last real result) where that is side-effect free:
            //   plus   : args[1] + args[2]
            //   tpl    : String(result) contains the coerced substitutions in order
            //   method : a native (non-membrane) function is re-applied; a membrane function is matched
            //            against its call event by the TLA+ decider ("log")
            const kind = (job.hookkinds || {})[name];
            let check = 'skip';
            const isMem = (v) => v !== null && (typeof v === 'object' || typeof v === 'function') && R.proxies.has(v);
            const isPlainObj = (v) => v !== null && (typeof v === 'object' || typeof v === 'function') && !R.proxies.has(v);
            const isPrim = (v) => v === null || (typeof v !== 'object' && typeof v !== 'function');
            if (kind && !R.shadow) {
              R.shadow = true;
              try {
                const ops = args.slice(1);
                if (kind === 'plus') {
                  if (args.length !== 3) check = 'mismatch';
                  else if (ops.some(isPlainObj)) check = 'skip';      // program-made objects coerce through code of their own
                  else {
                    // the operation has just coerced its membrane operands, in order: replay exactly those results
                    R.shadowPtr = R.primHist.length - ops.filter(isMem).length;
                    check = repr(args[1] + args[2]) === repr(args[0]) ? 'ok' : 'mismatch';
                  }
                } else if (kind === 'tpl') {
                  if (ops.some(isPlainObj) || ops.some((v) => typeof v === 'symbol')) check = 'skip';
                  else {
                    R.shadowPtr = R.primHist.length - ops.filter(isMem).length;
                    const text = String(args[0]);
                    let pos = 0; check = 'ok';
                    for (let i = 1; i < args.length; i++) {
                      const piece = String(args[i]);
                      const at = text.indexOf(piece, pos);
                      if (at < 0) { check = 'mismatch'; break; }
                      pos = at + piece.length;
                    }
                  }
                } else if (kind === 'method') {
                  const fn = args[1];
                  if (args.length < 3) check = 'mismatch';
                  else if (typeof fn === 'function' && R.proxies.has(fn)) check = 'log';
                  else if (typeof fn === 'function' && /\{\s*\[native code\]\s*\}$/.test(Function.prototype.toString.call(fn)) &&
                           args.slice(2).every(isPrim)) {
                    // a native method on primitives only: re-applying it is pure
                    check = repr(Reflect.apply(fn, args[2], args.slice(3))) === repr(args[0]) ? 'ok' : 'mismatch';
                  }
                }
              } catch (e) { if (e === OVERFLOW) throw e; check = 'skip'; } finally { R.shadow = false; }
            }
            R.hooks.push({ name, configured: configured.has(name), at: R.log.length, args: reprs(args), result: repr(args[0]), check });
            return args[0];
          });
        }
        return fns.get(name);
      },
    });
    R.nsObject = ns;
    if (job.ddiast === 'late') {
      // the tracer installs its hooks AFTER the file was loaded: the file's own prologue has to provide the
      // hook object first; finish() then puts the recording hooks into that object, as the tracer would
      R.lateNs = { ns, names: Array.from(configured) };
    } else {
      Object.defineProperty(g, '_ddiast', { value: ns, writable: true, enumerable: false, configurable: true });
    }
  }

  // entry lookup through the global scope (also sees top-level let/const/class of scripts)
  if (typeof job.entry === 'string' && IDENT.test(job.entry)) {
    R.entry = job.entry;
    try {
      R.getEntry = vm.runInContext(
        `(function () { try { return typeof ${job.entry} === 'function' ? ${job.entry} : undefined; } catch (e) { return undefined; } })`,
        R.ctx, { filename: 'membrane-entry.js' });
    } catch (e) { R.getEntry = null; }
  }
  return R;
}

function lookupEntry(R) {
  if (R.nsEntry) { const f = R.nsEntry(); if (typeof f === 'function') return f; }
  return R.getEntry ? R.getEntry() : undefined;
}

// Run a host thunk (which calls program code) under the vm timeout; drains microtasks afterwards.
function callIn(R, thunk) {
  Object.defineProperty(R.sandbox, THUNK, { value: thunk, writable: true, enumerable: false, configurable: true });
  try { return TRAMPOLINE.runInContext(R.ctx, RUN_OPTS); }
  finally { try { delete R.sandbox[THUNK]; } catch (e) { /* ignore */ } }
}

// Wait for a promise (of any realm) with a bounded number of drain/tick rounds.
async function settle(R, p) {
  let st = null;
  Promise.prototype.then.call(p, (v) => { st = { ok: true, v }; }, (e) => { st = { ok: false, e }; });
  for (let i = 0; i < SETTLE_ROUNDS && !st; i++) {
    await tick();
    if (st) break;
    EMPTY.runInContext(R.ctx, RUN_OPTS);   // may throw the vm timeout error
  }
  if (!st) { await tick(); if (!st) throw TIMEOUT; }
  if (st.ok) return st.v;
  throw st.e;
}

// Generators: up to 4 `.next(membrane)`; promises: await; async generators: both.
async function drive(R, v) {
  if (v === null || typeof v !== 'object' || R.ids.has(v)) return v;
  if (util.types.isGeneratorObject(v)) {
    for (let i = 0; i < 4; i++) {
      let r = callIn(R, () => v.next(R.mk('next' + i)));
      if (util.types.isPromise(r)) r = await settle(R, r);
      if (r === null || typeof r !== 'object' || R.ids.has(r)) return r;
      const done = !!r.done, value = r.value;
      R.emit({ e: 'yield', v: R.repr(value), d: done });
      if (done) return value;
    }
    return v;
  }
  if (util.types.isPromise(v)) return settle(R, v);
  return v;
}

function classify(R, e) {
  if (e === OVERFLOW || R.overflow) return { k: 'overflow' };
  if (e === TIMEOUT) return { k: 'timeout' };
  if (e !== null && (typeof e === 'object' || typeof e === 'function') && !R.ids.has(e) && util.types.isNativeError(e)) {
    try {
      if (e.code === 'ERR_SCRIPT_EXECUTION_TIMEOUT') return { k: 'timeout' };
      const c = e.constructor;
      const name = c && typeof c.name === 'string' && c.name ? c.name : 'Error';
      return { k: 'throw', v: name };
    } catch (x) { return { k: 'throw', v: 'Error' }; }
  }
  try { return { k: 'throw', v: R.repr(e) }; } catch (x) { return { k: 'overflow' }; }
}

// After the text has been evaluated: call the entry (if any) and compute the outcome.
async function finish(R, completion) {
  try {
    if (R.lateNs) {
      try {
        const d = Object.getOwnPropertyDescriptor(R.sandbox, '_ddiast');
        let obj = d && 'value' in d ? d.value : undefined;
        R.lateFound = obj !== undefined && obj !== null;
        if (!R.lateFound) { obj = {}; Object.defineProperty(R.sandbox, '_ddiast', { value: obj, writable: true, enumerable: false, configurable: true }); }
        R.nsObject = obj;
        for (const name of R.lateNs.names) obj[name] = R.lateNs.ns[name];
      } catch (e) { /* a frozen / exotic hook object: leave it */ }
    }
    let fn;
    try { fn = R.entry ? lookupEntry(R) : undefined; } catch (e) { fn = undefined; }
    let value = completion;
    if (typeof fn === 'function') {
      value = callIn(R, () => Reflect.apply(fn, R.mk('thisArg'), [R.mk('arg0'), R.mk('arg1'), R.mk('arg2')]));
    }
    value = await drive(R, value);
    return { k: 'return', v: R.repr(value) };
  } catch (e) { return classify(R, e); }
}

function dynImporter(R) {
  if (!HAS_MODULES) return undefined;
  const cache = new Map();
  return async (spec) => {
    const m = synthModule(R, String(spec), new Map(), cache);
    if (m.status === 'unlinked') await m.link(() => { throw new Error('no deps'); });
    if (m.status === 'linked') await m.evaluate();
    return m;
  };
}

function synthModule(R, spec, extra, cache) {
  if (cache.has(spec)) return cache.get(spec);
  const names = ['default', ...(extra.get(spec) || [])];
  const m = new vm.SyntheticModule(names, function () {
    for (const n of names) this.setExport(n, R.mk(n === 'default' ? 'import:' + spec : 'import:' + spec + '.' + n));
  }, { context: R.ctx, identifier: 'synthetic:' + spec });
  cache.set(spec, m);
  return m;
}

async function execScript(R, text) {
  let script;
  try {
    const opts = { filename: 'prog.js' };
    const dyn = dynImporter(R);
    if (dyn) opts.importModuleDynamically = dyn;
    script = new vm.Script(text, opts);
  } catch (e) { return { k: 'syntax', v: String(e && e.message) }; }
  let completion;
  try { completion = script.runInContext(R.ctx, RUN_OPTS); }
  catch (e) { return classify(R, e); }
  return finish(R, completion);
}

// Compile + link a module; exports requested from synthetic modules are discovered by retrying on
// the link error "does not provide an export named 'x'" (linking has no side effects).
async function linkModule(R, text) {
  const extra = new Map();
  for (let attempt = 0; attempt < 64; attempt++) {
    let m;
    try {
      m = new vm.SourceTextModule(text, { context: R.ctx, identifier: 'prog.mjs', importModuleDynamically: dynImporter(R) });
    } catch (e) { return { outcome: { k: 'syntax', v: String(e && e.message) } }; }
    const cache = new Map();
    try { await m.link((spec) => synthModule(R, String(spec), extra, cache)); return { m }; }
    catch (e) {
      const msg = String(e && e.message);
      const mm = /requested module '([^']*)' does not provide an export named '([^']*)'/.exec(msg);
      if (mm) {
        if (!extra.has(mm[1])) extra.set(mm[1], new Set());
        if (!extra.get(mm[1]).has(mm[2])) { extra.get(mm[1]).add(mm[2]); continue; }
      }
      return { outcome: e && e.name === 'SyntaxError' ? { k: 'syntax', v: msg } : classify(R, e) };
    }
  }
  return { outcome: { k: 'syntax', v: 'too many import names' } };
}

async function execModule(R, text, job) {
  if (!HAS_MODULES) return { k: 'unsupported' };
  let L = await linkModule(R, text);
  if (L.outcome) return L.outcome;
  // Entry not exported: append a guarded exposer line AFTER the text under test (same line for input and output).
  if (R.entry && job.expose_entry !== false && !Reflect.ownKeys(L.m.namespace).includes(R.entry)) {
    const n = R.entry;
    const L2 = await linkModule(R, text +
      `\n;try{if(typeof ${n}==="function"&&typeof globalThis.${n}==="undefined")globalThis.${n}=${n}}catch(e){}\n`);
    if (L2.m) L = L2;
  }
  const m = L.m;
  if (R.entry) {
    R.nsEntry = () => {
      try { return Reflect.ownKeys(m.namespace).includes(R.entry) ? m.namespace[R.entry] : undefined; }
      catch (e) { return undefined; }
    };
  }
  try { await settle(R, m.evaluate({ timeout: TIMEOUT_MS })); }
  catch (e) { return classify(R, e); }
  return finish(R, undefined);
}

async function runOne(job, resp, side) {
  const text = side === 'out' ? job.out : job.in;
  let R, outcome;
  try {
    R = newRun(job, resp, side);
    outcome = job.kind === 'module' ? await execModule(R, String(text), job) : await execScript(R, String(text));
  } catch (e) {
    if (!R) throw e;
    outcome = classify(R, e);
  }
  if (R.overflow) outcome = { k: 'overflow' };
  const res = { log: R.log };
  if (R.srctext) res.srctext = true;
  if (side === 'out') {
    res.hooks = R.hooks;
    if (job.ddiast === 'absent') {
      const info = { exists: false, keys: [] };
      try {
        const d = Object.getOwnPropertyDescriptor(R.sandbox, '_ddiast');
        if (d && 'value' in d && d.value !== undefined) {
          info.exists = true;
          const v = d.value;
          if (v !== null && typeof v === 'object' && !R.ids.has(v)) info.keys = Object.keys(v);
        }
      } catch (e) { /* ignore */ }
      res.ddiast = info;
    } else {
      // a hook object installed before the file ran must still be THE hook object afterwards
      let same = false;
      try {
        const d = Object.getOwnPropertyDescriptor(R.sandbox, '_ddiast');
        same = !!(d && 'value' in d && d.value === R.nsObject);
      } catch (e) { /* ignore */ }
      res.ddiast = { exists: true, keys: [], preserved: same, late_found: !!R.lateFound };
    }
  }
  res.outcome = outcome;
  if (job.emit_effects) res.eff = R.effs;
  return { res, effs: R.effs };
}

// "auto": pick effects round-robin from the input's default log, responses cycling.
function autoScenarios(job, defEffs, defLog) {
  const max = Number.isInteger(job.max_scenarios) && job.max_scenarios > 0 ? job.max_scenarios : 12;
  const seed = Number.isInteger(job.seed) ? Math.abs(job.seed) : 0;
  const scen = [{ sid: 'default', resp: {} }];
  const add = (resp) => { if (scen.length < max) scen.push({ sid: 's' + scen.length, resp }); };
  const free = (Array.isArray(job.free) ? job.free : []).filter((x) => typeof x === 'string');
  // free variables the program text actually mentions (as whole words)
  const used = free.filter((x) => new RegExp('(^|[^\\w$.])' + x + '($|[^\\w$])').test(job.in));
  const uv = used.length ? used : free;
  if (uv.length) add({ ['var:' + uv[seed % uv.length]]: { k: 'undef' } });
  if (uv.length && max >= 6) add({ ['var:' + uv[(seed + 1) % uv.length]]: { k: 'unbound' } });
  const effs = [];
  for (let i = 0; i < defEffs.length; i++) {
    const e = defEffs[i];
    if (e && /^(get|call|new|prim):/.test(e) && !effs.includes(e)) effs.push(e);
  }
  const base = [{ k: 'undef' }, { k: 'throw', v: 'TypeError' }, { k: 'null' }, { k: 'str', v: 'S' }];
  const n = effs.length;
  const seen = new Set();
  for (let i = 0; n > 0 && scen.length < max && i < n * 5; i++) {
    const eff = effs[(seed + i) % n];
    // calls and getters may also reassign a captured variable of the program before answering
    const asg = uv.length ? [{ k: 'assign', name: uv[(seed + i) % uv.length], to: { k: 'str', v: 'Z' } }] : [];
    const rs = eff.startsWith('call:') ? base.concat([{ k: 'reenter' }], asg)
      : eff.startsWith('get:') ? base.concat(asg) : base;
    const r = rs[(seed + i + Math.floor(i / n)) % rs.length];
    const key = eff + '|' + JSON.stringify(r);
    if (seen.has(key)) continue;
    seen.add(key);
    add({ [eff]: r });
  }
  return scen;
}

async function runJob(job) {
  const id = job && typeof job === 'object' && 'id' in job ? job.id : null;
  activeJobs++;
  try {
    if (!job || typeof job !== 'object') throw new Error('job must be an object');
    if (typeof job.in !== 'string') throw new Error('job.in must be a string');
    if (job.kind !== undefined && job.kind !== 'script' && job.kind !== 'module') throw new Error('bad kind');
    const hasOut = typeof job.out === 'string' && job.out !== '';
    let defIn = null;
    const defaultIn = async () => defIn || (defIn = await runOne(job, {}, 'in'));
    let scen;
    if (job.scenarios === 'auto') {
      const d = await defaultIn();
      scen = autoScenarios(job, d.effs, d.res.log);
    } else if (Array.isArray(job.scenarios)) {
      scen = job.scenarios.map((s, i) => ({
        sid: s && s.sid !== undefined ? s.sid : 's' + i,
        resp: s && s.resp && typeof s.resp === 'object' ? s.resp : {},
      }));
    } else if (job.scenarios === undefined || job.scenarios === null) {
      scen = [{ sid: 'default', resp: {} }];
    } else throw new Error('bad scenarios');
    const runs = [];
    for (const s of scen) {
      const isDefault = Object.keys(s.resp).length === 0;
      const run = { sid: s.sid, resp: s.resp };
      run.in = (isDefault ? await defaultIn() : await runOne(job, s.resp, 'in')).res;
      if (hasOut) run.out = (await runOne(job, s.resp, 'out')).res;
      runs.push(run);
    }
    return { id, runs };
  } catch (e) {
    return { id, error: String((e && e.message) || e) };
  } finally {
    try { await tick(); } catch (e) { /* ignore */ }   // let late 'unhandledRejection' events of this job fire first
    activeJobs--;
  }
}

module.exports = { runJob, HAS_MODULES, LOG_CAP };

// ---------------------------------------------------------------------------------------------
// CLI: NDJSON in, NDJSON out (same order).
// ---------------------------------------------------------------------------------------------
if (require.main === module) {
  // the parent going away (closed pipes) ends the worker: never spin on EPIPE
  process.stdout.on('error', () => process.exit(0));
  process.stderr.on('error', () => process.exit(0));
  process.on('uncaughtException', (e) => {
    if (e && (e.code === 'EPIPE' || e.code === 'ERR_STREAM_DESTROYED')) process.exit(0);
    try { process.stderr.write('membrane: uncaught ' + (e && e.stack || e) + '\n'); } catch (x) { process.exit(0); }
  });
  (async () => {
    const rl = require('readline').createInterface({ input: process.stdin, crlfDelay: Infinity, terminal: false });
    const write = (s) => new Promise((res) => { if (process.stdout.write(s)) res(); else process.stdout.once('drain', res); });
    for await (const line of rl) {
      if (!line.trim()) continue;
      let out;
      try {
        let job;
        try { job = JSON.parse(line); } catch (e) { out = { id: null, error: 'bad json: ' + e.message }; }
        if (!out) out = await runJob(job);
      } catch (e) { out = { id: null, error: String((e && e.message) || e) }; }
      let text;
      try { text = JSON.stringify(out); } catch (e) { text = JSON.stringify({ id: null, error: 'unserialisable result: ' + e.message }); }
      await write(text + '\n');
    }
  })().catch((e) => { process.stderr.write('membrane: fatal ' + (e && e.stack || e) + '\n'); process.exitCode = 1; });
}
