// Compile (do not run) program texts with V8 as script or module. One JSON job per line:
//   {"id", "kind": "script"|"module", "code"}  ->  {"id", "ok": bool, "error": "..."}
'use strict'
process.stdout.on('error', () => process.exit(0))
process.stderr.on('error', () => process.exit(0))
const vm = require('vm')
const readline = require('readline')
const rl = readline.createInterface({ input: process.stdin, crlfDelay: Infinity })
const ctx = vm.createContext({})
rl.on('line', (line) => {
  if (!line.trim()) return
  let job
  try { job = JSON.parse(line) } catch (e) { process.stdout.write(JSON.stringify({ ok: false, error: 'bad job' }) + '\n'); return }
  const res = { id: job.id, ok: true, error: null }
  try {
    if (job.kind === 'module') {
      if (!vm.SourceTextModule) throw new Error('UNSUPPORTED: run node with --experimental-vm-modules')
      // eslint-disable-next-line no-new
      new vm.SourceTextModule(job.code, { context: ctx })
    } else {
      // eslint-disable-next-line no-new
      new vm.Script(job.code)
    }
  } catch (e) {
    res.ok = false
    res.error = String(e && e.name) + ': ' + String(e && e.message)
  }
  process.stdout.write(JSON.stringify(res) + '\n')
})
