// Replays call histories against the REAL package glue (main.js, js/source-map, js/stack-trace of the
// repository under test) with two resolver shims: `lru-cache` (not installed here) and the wasm module
// (`./wasm/wasm_iast_rewriter`), whose Rewriter answers from a table of results computed beforehand by the
// native driver from the same working tree.  One JSON job per line:
//   { id, repo, table: {key: nativeResult|{error}}, texts: {version: text}, config, steps: [{op, file, version, mode}] }
// -> { id, events: [...] }   (one event per step, with what the package returned / reported)
'use strict'
process.stdout.on('error', () => process.exit(0))
process.stderr.on('error', () => process.exit(0))
const path = require('path')
const vm = require('vm')
const Module = require('module')
const readline = require('readline')

let faultSet = false   // fault injection: every write to an LRU store throws while this is set
class LRU {
  constructor (opts) { this.max = (opts && opts.max) || 1000; this.m = new Map() }
  get (k) { if (!this.m.has(k)) return undefined; const v = this.m.get(k); this.m.delete(k); this.m.set(k, v); return v }
  set (k, v) { if (faultSet) throw new Error('HARNESS: the store refuses the write'); if (this.m.has(k)) this.m.delete(k); this.m.set(k, v); if (this.m.size > this.max) this.m.delete(this.m.keys().next().value); return this }
  has (k) { return this.m.has(k) }
  delete (k) { return this.m.delete(k) }
}

let currentTable = {}
let lastNativeConfig
let lastUsedNativeConfig   // configuration of the native instance that served the last rewrite
class FakeNative {
  constructor (config) { this.config = config; this.cfgText = JSON.stringify(config); lastNativeConfig = this.cfgText }
  rewrite (code, file) {
    lastUsedNativeConfig = this.cfgText
    const key = code + '\u0000' + file
    // bulk files (op "bulk") all carry the text of a known version: the answer for /one.js serves
    const r = currentTable[key] || (file.startsWith('/w/bulk/') ? currentTable[code + '\u0000/one.js'] : undefined)
    if (!r) throw new Error('HARNESS: no precomputed native result for ' + key.slice(0, 80))
    if (r.error !== undefined && r.error !== null) throw new Error(r.error)
    return JSON.parse(JSON.stringify({ content: r.content, metrics: r.metrics, literalsResult: r.literals }))
  }

  csiMethods () { return [] }
  setLogger () {}
}

function loadPackage (repo) {
  const wasmPath = path.join(repo, 'wasm', 'wasm_iast_rewriter.js')
  const orig = Module._resolveFilename
  Module._resolveFilename = function (request, parent, ...rest) {
    if (request === 'lru-cache') return 'lru-cache'
    if (request === './wasm/wasm_iast_rewriter' && parent && parent.filename === path.join(repo, 'main.js')) return wasmPath
    return orig.call(this, request, parent, ...rest)
  }
  for (const k of Object.keys(require.cache)) if (k.startsWith(repo + path.sep)) delete require.cache[k]
  require.cache['lru-cache'] = { id: 'lru-cache', filename: 'lru-cache', loaded: true, exports: LRU, children: [] }
  require.cache[wasmPath] = { id: wasmPath, filename: wasmPath, loaded: true, exports: { Rewriter: FakeNative }, children: [] }
  return require(path.join(repo, 'main.js'))
}

// frames of the files under test (not the harness caller, not node internals)
function isMine (p) { return p.startsWith('/w/') || p.startsWith('/abs/') || /(^|\/)(one\.js|tw[^/]*\.js|orig\.ts|a\.ts|b\.ts|only\.ts)$/.test(p) }

function frameOfLine (line) {
  // "(path:line:col)" or "at path:line:col"; an eval frame is located by its eval origin
  const ev = /eval at [^(]*\(((?:[A-Za-z]:)?[^():]+):(\d+):(\d+)\)/.exec(line)
  if (ev) return { path: ev[1], line: Number(ev[2]), col: Number(ev[3]), raw: line.trim(), eval: true }
  const m = /\(?((?:[A-Za-z]:)?[^():]+):(\d+):(\d+)\)?\s*$/.exec(line)
  return m ? { path: m[1], line: Number(m[2]), col: Number(m[3]), raw: line.trim() } : { raw: line.trim() }
}

// every frame of the formatted stack that lies in the files under test (not the harness caller, not node internals)
function framesOf (stackString) {
  const lines = String(stackString).split('\n').filter((l) => /^\s*at /.test(l))
  if (!lines.length) return [{ raw: String(stackString) }]
  const all = lines.map(frameOfLine)
  const mine = all.filter((f) => typeof f.path === 'string' && isMine(f.path))
  return mine.length ? mine : [all[0]]
}

let shared = null
function runJob (job) {
  if (job.op === 'setup') { shared = job; return { id: job.id, ok: true } }
  job = Object.assign({}, shared, job)
  currentTable = job.table
  // what the native rewriter is handed for this configuration by a freshly loaded package, no other instance around
  void new (loadPackage(job.repo).Rewriter)(job.config)
  const cfgFresh = lastNativeConfig
  const pkg = loadPackage(job.repo)
  const events = []
  // another instance with other options comes first: nothing of it may reach the instance under test
  const decoy = new pkg.Rewriter(Object.assign({}, job.config, { comments: !job.config.comments, telemetryVerbosity: 'OFF', literals: false, localVarPrefix: 'zz', chainSourceMap: false }))
  void decoy
  // ... and instances that differ from it in one place only: the CONTENT of the method list (same length), and
  // each option on its own
  const renamed = (job.config.csiMethods || []).map((m, i) => Object.assign({}, m, i === 0 ? { src: m.src + 'Q', dst: (m.dst || m.src) + 'Q' } : { dst: (m.dst || m.src) + 'Z' }))
  const decoys = [new pkg.Rewriter(Object.assign({}, job.config, { csiMethods: renamed })),
    new pkg.NonCacheRewriter(Object.assign({}, job.config, { csiMethods: renamed.slice().reverse() })),
    new pkg.Rewriter(Object.assign({}, job.config, { localVarPrefix: 'zz' })),
    new pkg.Rewriter(Object.assign({}, job.config, { telemetryVerbosity: job.config.telemetryVerbosity === 'OFF' ? 'DEBUG' : 'OFF' }))]
  void decoys
  const rewriter = new pkg.Rewriter(job.config)
  events.push({ op: 'new', file: '', version: '', threw: false, cfg_same: lastNativeConfig === cfgFresh, cfg_got: String(lastNativeConfig).slice(0, 300) })
  const inUse = {}   // file -> text returned by the last successful rewrite
  for (const step of job.steps) {
    const ev = { op: step.op, file: step.file, version: step.version || '', threw: false }
    try {
      if (step.op === 'rewrite' || step.op === 'rewrite_fault') {
        const text = job.texts[step.version]
        faultSet = step.op === 'rewrite_fault'
        // (the store of the rewritten files' maps is a plain Map: its write for this file fails too)
        const mapSet = Map.prototype.set
        if (faultSet) {
          Map.prototype.set = function (k, v) {
            if (k === step.file) throw new Error('HARNESS: the store refuses the write')
            return mapSet.call(this, k, v)
          }
        }
        try {
          const res = rewriter.rewrite(text, step.file)
          ev.status = String(res && res.metrics && res.metrics.status)
          ev.same_text = res.content === text
          ev.has_trailer = /\n\/\/# sourceMappingURL=data:application\/json;base64,[^\n]*\s*$/.test(res.content || '')
          ev.has_hook = String(res.content).includes('_ddiast.')
          inUse[step.file] = res.content
          ev.rewrite_error = ''
          // C16 at the package level: what the package hands back is what a fresh native call gives for this
          // (configuration, text, file) -- except that a not-modified result carries the caller's text
          const nat = job.table[text + '\u0000' + step.file] || {}
          const natStatus = nat.metrics && nat.metrics.status
          const diffs = []
          if ((natStatus === 'notmodified' ? text : nat.content) !== res.content) diffs.push('content')
          if (JSON.stringify(nat.metrics) !== JSON.stringify(res.metrics)) diffs.push('metrics')
          if (JSON.stringify(nat.literals) !== JSON.stringify(res.literalsResult)) diffs.push('literals')
          // the native rewriter that served the call was built from THIS instance's configuration
          if (lastUsedNativeConfig !== cfgFresh) diffs.push('native rewriter of another configuration')
          ev.fresh_same = diffs.length === 0
          ev.fresh_diff = diffs.join(',')
        } catch (e) {
          ev.rewrite_error = String(e && e.message)
          ev.status = 'error'
        } finally {
          faultSet = false
          Map.prototype.set = mapSet
        }
      } else if (step.op === 'throw') {
        // run the text in use under the package's prepareStackTrace, both paths
        const text = inUse[step.file]
        ev.frames = []
        for (const mode of ['handler', 'string']) {
          const saved = Error.prepareStackTrace
          let structured = null
          const enclosing = []
          const user = mode === 'handler'
            ? (err, cs) => {
                // a handler may use the whole CallSite API: nothing of it may be missing or throw
                for (const c of cs) {
                  for (const m of ['getThis', 'getTypeName', 'getFunction', 'getFunctionName', 'getMethodName', 'getFileName',
                    'getLineNumber', 'getColumnNumber', 'getEvalOrigin', 'isToplevel', 'isEval', 'isNative', 'isConstructor',
                    'isAsync', 'isPromiseAll', 'getPromiseIndex', 'getScriptNameOrSourceURL', 'getScriptHash',
                    'getEnclosingColumnNumber', 'getEnclosingLineNumber', 'getPosition', 'toString']) c[m]()
                }
                structured = []
                for (const c of cs) {
                  // what a handler that prints the call site itself shows
                  const t = frameOfLine('at ' + String(c))
                  if (typeof t.path === 'string' && isMine(t.path)) structured.push({ path: t.path, line: t.line, col: t.col, printed: true })
                }
                // the start of the enclosing function is a position in the file like the call site's own: what the
                // wrapped call site reports for it is what the package reports for a call site AT that position
                for (const c of cs) {
                  const raw = c.getThis()
                  if (!raw || typeof raw.getEnclosingLineNumber !== 'function') continue
                  const rl = raw.getEnclosingLineNumber(); const rc = raw.getEnclosingColumnNumber(); const rf = raw.getFileName()
                  if (typeof rl === 'number' && typeof rc === 'number' && typeof rf === 'string' && isMine(rf)) {
                    enclosing.push({ file: rf, l: rl, c: rc, line: c.getEnclosingLineNumber(), col: c.getEnclosingColumnNumber() })
                  }
                }
                // a handler that names frames by getScriptNameOrSourceURL(): nothing (null) or the translated path,
                // never the rewritten file's name next to the translated line
                for (const c of cs) {
                  const sn = c.getScriptNameOrSourceURL()
                  if (typeof sn === 'string' && isMine(sn)) structured.push({ path: sn, line: c.getLineNumber(), col: c.getColumnNumber(), script_name: true })
                }
                structured = structured.concat(cs.map((c) => {
                  const f = { path: c.getFileName(), line: c.getLineNumber(), col: c.getColumnNumber() }
                  // a frame of eval'd code has no file name of its own: its position in the file is its eval origin
                  if (typeof f.path !== 'string' && c.isEval && c.isEval()) {
                    const o = frameOfLine('at ' + String(c.getEvalOrigin()))
                    if (o.eval) return { path: o.path, line: o.line, col: o.col, eval: true }
                  }
                  return f
                }))
                return 'handled'
              }
            : undefined
          let got = []
          try {
            Error.prepareStackTrace = pkg.getPrepareStackTrace(user)
            const ctx = vm.createContext({ _ddiast: new Proxy({}, { get: () => (x) => x }) })
            vm.runInContext(text, ctx, { filename: step.file })
            try {
              // (a function handed back is called from the caller's file)
              vm.runInContext('var r = boom("x", "y"); if (typeof r === "function") r()', ctx, { filename: '/harness/caller.js' })
              got = [{ none: true }]
            } catch (e) {
              const s = e.stack
              // handler path: every structured frame that has a file name (eval frames have none);
              // string path: every frame of the formatted stack, eval frames by their origin
              if (mode === 'handler') {
                // (a stack whose only link to the file is an eval origin has no such frame: nothing to report here)
                got = (structured || []).filter((f) => typeof f.path === 'string' && isMine(f.path))
                if (!structured) got = [{ raw: String(s) }]
              } else {
                got = framesOf(s)
              }
            }
          } catch (e) {
            got = [{ prepare_threw: String(e && e.message) }]
            ev.threw = true
          } finally {
            Error.prepareStackTrace = saved
          }
          for (const g of got) ev.frames.push(Object.assign({ mode }, g || {}))
          if (enclosing.length) {
            // oracle: the package's own translation of a call site at that position (probes of arbitrary positions are
            // bound to the specification's Lookup by the probe histories)
            const fake = (f, l, c) => ({
              getFileName: () => f, getLineNumber: () => l, getColumnNumber: () => c, getTypeName: () => null, getFunction: () => undefined,
              getFunctionName: () => 'f', getMethodName: () => null, getEvalOrigin: () => undefined, isToplevel: () => true,
              isEval: () => false, isNative: () => false, isConstructor: () => false, toString: () => 'f (' + f + ':' + l + ':' + c + ')'
            })
            try {
              const prep = pkg.getPrepareStackTrace((err, cs) => cs.map((c) => [c.getLineNumber(), c.getColumnNumber()]))
              const out = prep(new Error('probe'), enclosing.map((e) => fake(e.file, e.l, e.c)))
              const bad = enclosing.filter((e, i) => e.line !== out[i][0] || e.col !== out[i][1])
              ev.enclosing_checked = (ev.enclosing_checked || 0) + enclosing.length
              if (bad.length) ev.enclosing_bad = JSON.stringify(bad.slice(0, 2)) + ' expected ' + JSON.stringify(out.slice(0, 2))
            } finally {
              Error.prepareStackTrace = saved
            }
          }
        }
      } else if (step.op === 'bulk') {
        // many other files are rewritten in between: the maps of the files in use must survive
        for (let i = 0; i < step.n; i++) rewriter.rewrite(job.texts[step.version], '/w/bulk/f' + i + '.js')
      } else if (step.op === 'probe') {
        // arbitrary positions of a file, translated through the public stack-trace API with fake call sites
        const sites = step.positions.map(([l, c]) => ({
          getFileName: () => step.file, getLineNumber: () => l, getColumnNumber: () => c,
          getTypeName: () => null, getFunction: () => undefined, getFunctionName: () => 'f', getMethodName: () => null,
          getEvalOrigin: () => undefined, isToplevel: () => true, isEval: () => false, isNative: () => false,
          isConstructor: () => false, toString: () => 'f (' + step.file + ':' + l + ':' + c + ')'
        }))
        const saved = Error.prepareStackTrace
        try {
          const prep = pkg.getPrepareStackTrace((err, cs) => cs.map((c) => [c.getFileName(), c.getLineNumber(), c.getColumnNumber()]))
          const out = prep(new Error('probe'), sites)
          ev.results = step.positions.map(([l, c], i) => [l, c, String(out[i][0]), Number(out[i][1]), Number(out[i][2])])
          // "never throw": the preparation is also handed errors whose stack is not a string
          for (const weird of [{ stack: 42 }, { stack: undefined }, Object.create(null), { get stack () { return { toString: null } } }]) {
            pkg.getPrepareStackTrace(undefined)(weird, sites.slice(0, 2))
          }
        } finally {
          Error.prepareStackTrace = saved
        }
      } else if (step.op === 'original') {
        // getOriginalPathAndLineFromSourceMap on a file the package knows nothing about / on disk
        const r = pkg.getOriginalPathAndLineFromSourceMap(step.file, step.line, step.col)
        ev.result = r
      }
    } catch (e) {
      ev.threw = true
      ev.error = String(e && e.message)
    }
    events.push(ev)
  }
  return { id: job.id, events }
}

const rl = readline.createInterface({ input: process.stdin, crlfDelay: Infinity })
rl.on('line', (line) => {
  if (!line.trim()) return
  let out
  try { out = runJob(JSON.parse(line)) } catch (e) { out = { id: null, error: String(e && e.stack) } }
  process.stdout.write(JSON.stringify(out) + '\n')
})
