#!/usr/bin/env node
// Self test for membrane.js:  node --experimental-vm-modules membrane_selftest.js
// Exit 0 + "PASS …" on success, exit 1 on failure.
'use strict';
const path = require('path');
const fs = require('fs');
const cp = require('child_process');
const { runJob, HAS_MODULES, LOG_CAP } = require(path.join(__dirname, 'membrane.js'));

let checks = 0;
const failures = [];
const J = (x) => JSON.stringify(x);
function ok(cond, what, detail) {
  checks++;
  if (!cond) failures.push(what + (detail ? '\n      ' + detail : ''));
}
const sameRun = (r) => J(r.in.log) === J(r.out.log) && J(r.in.outcome) === J(r.out.outcome);
const evs = (log) => log.map((e) => e.e + ':' + (e.o || e.f || '') + (e.k !== undefined ? '.' + e.k : '')).join(' ');
async function job(j) {
  const r = await runJob(Object.assign({ id: 't', kind: 'script', free: ['a', 'b', 'c', 'd', 'f', 'g', 'o'], hooks: ['trim', 'plusOperator'], entry: 'main' }, j));
  if (r.error) throw new Error('job error: ' + r.error);
  return r;
}
const fn = (body) => 'function main(x){ let t, u, v, w; ' + body + ' }';

async function main() {
  // (1) identical programs give identical logs (all auto scenarios)
  {
    const p = fn('return a.trim(b) + f(c.d, ...o) + `${g}`;');
    const r = await job({ in: p, out: p, scenarios: 'auto', max_scenarios: 12, seed: 3 });
    ok(r.runs.length > 6 && r.runs.length <= 12, '(1) auto produces several scenarios', 'got ' + r.runs.length);
    ok(r.runs[0].sid === 'default' && r.runs[0].in.log.length >= 7, '(1) default log non-trivial', evs(r.runs[0].in.log));
    for (const run of r.runs) ok(sameRun(run), '(1) identical programs, scenario ' + run.sid, J(run.resp));
    ok(r.runs.some((x) => x.in.outcome.k === 'throw') && r.runs.some((x) => x.in.outcome.k === 'return'), '(1) scenarios reach throw and return outcomes');
    const r2 = await job({ in: p, out: p, scenarios: 'auto', max_scenarios: 12, seed: 3 });
    ok(J(r) === J(r2), 'determinism: same job twice gives the same result');
  }
  // (2) a?.trim(b) vs its rewriting
  {
    const r = await job({
      in: fn('return a?.trim(b);'),
      out: fn('return (t = a, t == null ? undefined : (u = t.trim, _ddiast.trim(u.call(t, b), u, t, b)));'),
      scenarios: [{ sid: 'default', resp: {} }, { sid: 'undef', resp: { 'var:a': { k: 'undef' } } }, { sid: 'null', resp: { 'var:a': { k: 'null' } } },
        { sid: 'str', resp: { 'var:a': { k: 'str', v: ' S ' } } }, { sid: 'nofn', resp: { 'get:a.trim#1': { k: 'undef' } } }],
    });
    for (const run of r.runs) ok(sameRun(run), '(2) optional call, scenario ' + run.sid, J(run.in) + ' vs ' + J(run.out));
    const d = r.runs[0];
    ok(J(d.in.log) === J([{ e: 'get', o: 'a', k: 'trim' }, { e: 'call', f: 'a.trim#1', t: '@a', a: ['@b'] }]), '(2) u.call(t,b) logs exactly one call with f=id(u), t=@id(t)', J(d.out.log));
    ok(J(d.out.hooks) === J([{ name: 'trim', configured: true, at: 2, args: ['@a.trim#1()#1', '@a.trim#1', '@a', '@b'], result: '@a.trim#1()#1', check: 'skip' }]), '(2) hook stream', J(d.out.hooks));
    ok(d.in.hooks === undefined && d.in.outcome.v === '@a.trim#1()#1', '(2) input outcome', J(d.in.outcome));
    ok(r.runs[1].in.log.length === 0 && r.runs[1].in.outcome.v === 'undefined:undefined' && r.runs[1].out.hooks.length === 0, '(2) var:a undef short-circuits');
    ok(r.runs[3].in.outcome.v === 's:S' && r.runs[3].out.hooks[0].args[0] === 's:S', '(2) var:a str uses the real trim', J(r.runs[3].out));
    ok(r.runs[4].in.outcome.k === 'throw' && r.runs[4].in.outcome.v === 'TypeError', '(2) get answered undefined -> TypeError', J(r.runs[4].in.outcome));
  }
  // (3) evaluating an operand twice shows up as an extra event
  {
    const r = await job({ in: fn('return f(a.b);'), out: fn('return (a.b, f(a.b));') });
    const run = r.runs[0];
    ok(!sameRun(run) && run.out.log.length === run.in.log.length + 1, '(3) double evaluation is an extra event', evs(run.in.log) + ' | ' + evs(run.out.log));
    ok(run.out.log[2].a[0] === '@a.b#2' && run.in.log[1].a[0] === '@a.b#1', '(3) per-(object,key) read counters', J(run.out.log));
  }
  // (4) swapping the evaluation order of two calls changes the log
  {
    const r = await job({ in: fn('return f() + g();'), out: fn('return (v = g(), u = f(), _ddiast.plusOperator(u + v, u, v));') });
    const run = r.runs[0];
    ok(!sameRun(run) && run.in.log[0].f === 'f' && run.out.log[0].f === 'g', '(4) swapped call order changes the log', evs(run.out.log));
    ok(J(run.in.outcome) === J(run.out.outcome) && run.in.outcome.v === 's:<f()#1><g()#1>', '(4) ids are stable under reordering (same outcome)', J(run.out.outcome));
  }
  // (5) a throwing getter: same position, same outcome
  {
    const r = await job({
      in: fn('return o.p + a?.trim(b);'),
      out: fn('return (w = o.p, v = (t = a, t == null ? undefined : (u = t.trim, _ddiast.trim(u.call(t, b), u, t, b))), _ddiast.plusOperator(w + v, w, v));'),
      scenarios: [{ sid: 'thr', resp: { 'get:a.trim#1': { k: 'throw', v: 'TypeError' } } }, { sid: 'thr2', resp: { 'call:a.trim#1()#1': { k: 'throw', v: 'RangeError' } } }],
    });
    const run = r.runs[0];
    ok(sameRun(run) && run.in.outcome.k === 'throw' && run.in.outcome.v === 'TypeError' && run.in.log.length === 2 && run.out.hooks.length === 0, '(5) throwing getter', J(run.in) + ' vs ' + J(run.out));
    ok(sameRun(r.runs[1]) && r.runs[1].out.outcome.v === 'RangeError' && r.runs[1].in.log.length === 3, '(5) throwing call', J(r.runs[1].out));
  }
  // membrane details
  {
    const r = await job({
      in: fn(`'use strict'; class Q extends K { foo(y){ return super.foo(y) } }
        const k = new Q(a); delete a.q; 'z' in a; a.w = [1, 'two', b]; for (const p in b) k.trim(p); const [m, n] = c;
        t = a.slice; t.apply(b, [1, m]); t.bind(n)(2); new a.C(1); aloneMethod(a.prototype === a.prototype);
        return [typeof a, a == null, tag\`x\${k}y\\n\`, String.raw\`r\\n\${1}\`, k.foo(1), +a, \`\${b}\`, a.then, a.toString, a.length];`),
    });
    const run = r.runs[0];
    const expect = [
      { e: 'new', f: 'K', a: ['@a'] }, { e: 'delete', o: 'a', k: 'q' }, { e: 'has', o: 'a', k: 'z' }, { e: 'set', o: 'a', k: 'w', v: '[number:1,s:two,@b]' },
      { e: 'keys', o: 'b' }, { e: 'call', f: 'K.prototype.trim', t: '@K{}#1', a: ['s:x'] }, { e: 'iter', o: 'c' },
      { e: 'get', o: 'a', k: 'slice' }, { e: 'call', f: 'a.slice#1', t: '@b', a: ['number:1', '@c[0]#1'] }, { e: 'call', f: 'a.slice#1', t: '@c[1]#1', a: ['number:2'] },
      { e: 'get', o: 'a', k: 'C' }, { e: 'new', f: 'a.C#1', a: ['number:1'] }, { e: 'get', o: 'a', k: 'prototype' }, { e: 'get', o: 'a', k: 'prototype' },
      { e: 'call', f: 'aloneMethod', t: 'undefined:undefined', a: ['boolean:true'] },
      { e: 'call', f: 'tag', t: 'undefined:undefined', a: ['[s:x,s:y\n]raw[s:x,s:y\\n]', '@K{}#1'] },
      { e: 'call', f: 'K.prototype.foo', t: '@K{}#1', a: ['number:1'] }, { e: 'prim', o: 'a', h: 'number' }, { e: 'prim', o: 'b', h: 'string' },
    ];
    ok(J(run.in.log) === J(expect), 'membrane event table', J(run.in.log));
    ok(run.in.outcome.v === '[s:function,boolean:false,@tag()#1,s:r\\n1,@K.prototype.foo()#1,number:NaN,s:<b>,undefined:undefined,undefined:undefined,undefined:undefined]', 'membrane reprs', J(run.in.outcome));
  }
  // reenter / assign / unbound
  {
    let r = await job({ in: 'var n = 0; ' + fn('n++; return f(x.p) + n;'), scenarios: [{ sid: 'r', resp: { 'call:f()#1': { k: 'reenter' } } }] });
    ok(evs(r.runs[0].in.log) === 'get:arg0.p call:f reenter: get:re1.arg0.p call:f prim:f()#2 leave: prim:f()#1' && r.runs[0].in.outcome.v === 's:<f()#1>2', 'reenter', evs(r.runs[0].in.log));
    r = await job({ in: fn('v = a; f(); return [v === a, a + "x"];'), scenarios: [{ sid: 'as', resp: { 'call:f()#1': { k: 'assign', name: 'a', to: { k: 'str', v: 'Z' } } } }] });
    ok(r.runs[0].in.outcome.v === '[boolean:false,s:Zx]', 'assign rebinding', J(r.runs[0].in.outcome));
    r = await job({ in: fn('return a;'), scenarios: [{ sid: 'u', resp: { 'var:a': { k: 'unbound' } } }] });
    ok(r.runs[0].in.outcome.k === 'throw' && r.runs[0].in.outcome.v === 'ReferenceError', 'unbound free variable', J(r.runs[0].in.outcome));
    r = await job({ in: fn('throw a;') });
    ok(r.runs[0].in.outcome.v === '@a' && r.runs[0].in.log.length === 0, 'throwing a membrane object is not probed', J(r.runs[0].in));
  }
  // generators, async, time-outs, overflow, syntax, bad jobs
  {
    let r = await job({ in: 'function* main(x){ const r = yield a + "y"; yield r.q; return 7; }' });
    ok(evs(r.runs[0].in.log) === 'prim:a yield: get:next1.q yield: yield:' && r.runs[0].in.outcome.v === 'number:7', 'generator driving', J(r.runs[0].in));
    r = await job({ in: 'async function main(x){ const r = await a.b(); return r + "z"; }' });
    ok(r.runs[0].in.outcome.v === 's:<a.b#1()#1>z', 'async function awaited', J(r.runs[0].in.outcome));
    r = await job({ in: 'async function* main(x){ yield await a.p; throw new RangeError("r"); }' });
    ok(evs(r.runs[0].in.log) === 'get:a.p yield:' && r.runs[0].in.outcome.v === 'RangeError', 'async generator', J(r.runs[0].in));
    r = await job({ in: 'function main(){ for(;;); }' }); ok(r.runs[0].in.outcome.k === 'timeout', 'sync endless loop -> timeout');
    r = await job({ in: 'async function main(){ for(;;) await 0; }' }); ok(r.runs[0].in.outcome.k === 'timeout', 'async endless loop -> timeout');
    r = await job({ in: 'function main(){ return new Promise(() => {}); }' }); ok(r.runs[0].in.outcome.k === 'timeout', 'never-settling promise -> timeout');
    r = await job({ in: 'function main(){ for(;;) { try { a.b } catch (e) {} } }' });
    ok(r.runs[0].in.outcome.k === 'overflow' && r.runs[0].in.log.length === LOG_CAP, 'log cap -> overflow', r.runs[0].in.log.length + ' ' + J(r.runs[0].in.outcome));
    r = await job({ in: 'let x = ;' }); ok(r.runs[0].in.outcome.k === 'syntax', 'syntax error outcome');
    r = await job({ in: 'Promise.reject(new Error("unhandled")); zzz' }); ok(r.runs[0].in.outcome.v === 'ReferenceError', 'unknown global -> ReferenceError');
    r = await runJob({ id: 'bad' }); ok(r.id === 'bad' && typeof r.error === 'string', 'bad job reports an error');
    r = await runJob(null); ok(typeof r.error === 'string', 'null job reports an error');
    r = await job({ in: '[new Date().getTime(), Date.now(), Math.random(), typeof _ddiast, this === globalThis]', entry: null });
    ok(r.runs[0].in.outcome.v === '[number:0,number:0,number:0.5,s:undefined,boolean:true]', 'deterministic realm, no _ddiast in the input run', J(r.runs[0].in.outcome));
  }
  // the rewriter's prologue with "ddiast":"absent"
  const PROLOGUE = ";\nif (typeof _ddiast === 'undefined') (function(globals) {\n    const noop = (res)=>res;\n    globals._ddiast = globals._ddiast || {\n        plusOperator: noop,\n        trim: noop\n    };\n}((1, eval)('this')));\n";
  {
    const inp = fn('return a.trim() + b;');
    const out = PROLOGUE + fn('return (u = (t = a, v = t.trim, _ddiast.trim(v.call(t), v, t)), w = b, _ddiast.plusOperator(u + w, u, w));');
    let r = await job({ in: inp, out, ddiast: 'absent' });
    ok(sameRun(r.runs[0]) && J(r.runs[0].out.ddiast) === J({ exists: true, keys: ['plusOperator', 'trim'] }) && r.runs[0].out.hooks.length === 0, 'prologue installs pass-through hooks (ddiast absent)', J(r.runs[0].out));
    r = await job({ in: inp, out });
    ok(sameRun(r.runs[0]) && r.runs[0].out.hooks.map((h) => h.name).join() === 'trim,plusOperator' && r.runs[0].out.ddiast.preserved === true, 'prologue is inert when _ddiast is predefined', J(r.runs[0].out.hooks));
    r = await job({ in: inp, out: fn('return _ddiast.nope(a.trim() + b);') });
    ok(r.runs[0].out.hooks[0].configured === false, 'unconfigured hook names are flagged');
  }
  // modules
  if (HAS_MODULES) {
    let r = await job({ kind: 'module', in: "import z, {q as w} from 'm'; import * as ns from 'n'; export function main(x){ return z.trim(w) + typeof ns.default + this; }" });
    ok(evs(r.runs[0].in.log) === 'get:import:m.trim call:import:m.trim#1 prim:import:m.trim#1()#1 prim:thisArg' && r.runs[0].in.log[1].a[0] === '@import:m.q', 'module imports are membrane objects', J(r.runs[0].in));
    r = await job({ kind: 'module', in: "function main(x){ return x.p + 'm'; }\n// trailing comment" });
    ok(r.runs[0].in.outcome.v === 's:<arg0.p#1>m', 'non-exported module entry is reachable', J(r.runs[0].in));
    r = await job({ kind: 'module', in: 'await 0; for(;;) await 0;' }); ok(r.runs[0].in.outcome.k === 'timeout', 'module top-level-await loop -> timeout');
    r = await job({ kind: 'module', in: 'export default a.b; throw new TypeError("t");' }); ok(r.runs[0].in.outcome.v === 'TypeError' && r.runs[0].in.log.length === 1, 'module throw', J(r.runs[0].in));
    r = await job({ kind: 'module', in: 'import {x} from "m"; export {x as y}; let x;' }); ok(r.runs[0].in.outcome.k === 'syntax', 'module syntax error', J(r.runs[0].in.outcome));
  } else {
    const r = await job({ kind: 'module', in: 'export function main(){}' });
    ok(r.runs[0].in.outcome.k === 'unsupported', 'modules unsupported without --experimental-vm-modules');
  }
  // CLI protocol
  {
    const lines = [J({ id: 'c1', kind: 'script', in: 'a.b', free: ['a'] }), 'not json', J({ id: 'c3', in: 'function main(){ return 1 }', out: 'function main(){ return 1 }', entry: 'main' })].join('\n') + '\n';
    const p = cp.spawnSync(process.execPath, ['--experimental-vm-modules', '--no-warnings', path.join(__dirname, 'membrane.js')], { input: lines, encoding: 'utf8' });
    const outs = p.stdout.trim().split('\n').map((l) => { try { return JSON.parse(l); } catch (e) { return null; } });
    ok(p.status === 0 && outs.length === 3 && outs[0] && outs[0].id === 'c1' && outs[1] && outs[1].error && outs[2] && outs[2].runs[0].out.outcome.v === 'number:1', 'CLI: one result line per job, in order', p.stdout.slice(0, 300) + p.stderr.slice(0, 300));
  }
  // optional: real rewriter output (skipped when the native driver is not built)
  let real = 'skipped';
  const driver = path.join(__dirname, '..', 'target', 'release', 'driver');
  if (fs.existsSync(driver)) {
    const cfg = { localVarPrefix: 'p', csiMethods: [{ src: 'plusOperator', operator: true }, { src: 'tplOperator', operator: true }, { src: 'trim' }, { src: 'concat' }, { src: 'slice' }] };
    const progs = [
      ['script', 'function main(x){ return a?.trim(b) + f().concat(`${c}z`, ...d); }'],
      ['script', "'use strict'; function main(x){ let s = 'p' + x.q; s += a.b; try { return s.trim().slice(1, f(s)) } catch (e) { return 'E' + e } }"],
      ['script', "function* main(x){ const r = yield a + 'y'; return tag`t${r + b}` + new K(c).concat(d, 'k'); }"],
      ['module', "import z, {q} from 'm'; export async function main(x){ return (await z.trim()) + q + `${x}t` + o?.[c]?.slice(1); }"],
    ].filter((p) => p[0] !== 'module' || HAS_MODULES);
    const req = progs.map((p, i) => J({ id: String(i), code: p[1], file: '/w/t.js', config: cfg })).join('\n') + '\n';
    const p = cp.spawnSync(driver, [], { input: req, encoding: 'utf8', cwd: '/tmp' });
    let outs = null;
    try { outs = p.stdout.trim().split('\n').map((l) => JSON.parse(l)); } catch (e) { outs = null; }
    if (p.status === 0 && outs && outs.length === progs.length && outs.every((o) => typeof o.content === 'string')) {
      let n = 0;
      for (let i = 0; i < progs.length; i++) {
        for (const ddiast of [undefined, 'absent']) {
          const r = await job({ kind: progs[i][0], in: progs[i][1], out: outs[i].content, hooks: cfg.csiMethods.map((m) => m.src), scenarios: 'auto', max_scenarios: 8, seed: i, ddiast });
          for (const run of r.runs) { n++; ok(sameRun(run), 'real rewriter pair ' + i + ' (' + (ddiast || 'present') + ') scenario ' + run.sid, progs[i][1] + '\n      in : ' + J(run.in) + '\n      out: ' + J(run.out)); }
          if (!ddiast) ok(r.runs[0].out.hooks.length > 0 && r.runs[0].out.hooks.every((h) => h.configured), 'real rewriter pair ' + i + ': hooks observed');
        }
      }
      real = n + ' scenario runs on ' + progs.length + ' rewritten programs';
    } else real = 'skipped (driver did not answer)';
  }

  if (failures.length) {
    console.log('FAIL ' + failures.length + '/' + checks + ' checks');
    for (const f of failures) console.log('  - ' + f);
    process.exit(1);
  }
  console.log('PASS ' + checks + ' checks (modules: ' + (HAS_MODULES ? 'yes' : 'no') + '; real rewriter: ' + real + ')');
  process.exit(0);
}
main().catch((e) => { console.log('FAIL (exception) ' + (e && e.stack || e)); process.exit(1); });
