//! Line-oriented driver around the real rewriter (built from /repo's working tree with the
//! verification cfg). One JSON request per stdin line, one JSON response per stdout line.
use rwlib::verif_hooks as vh;
use serde_json::{json, Map, Value};
use std::collections::HashMap;
use std::io::{BufRead, Cursor, Write};
use std::panic::{catch_unwind, AssertUnwindSafe};
use std::path::{Path, PathBuf};

struct VReader {
    parent_mode: String, // "default" | "none"
    files: Map<String, Value>,
    log: std::cell::RefCell<Vec<Value>>,
}

impl vh::FileReader<Cursor<Vec<u8>>> for VReader {
    fn read(&self, path: &Path) -> std::io::Result<Cursor<Vec<u8>>> {
        let key = path.to_string_lossy().to_string();
        let entry = self.files.get(&key);
        let kind = entry
            .and_then(|e| e.get("kind"))
            .and_then(|k| k.as_str())
            .unwrap_or("enoent")
            .to_string();
        self.log.borrow_mut().push(json!({"read": key, "kind": kind}));
        use std::io::{Error, ErrorKind};
        match kind.as_str() {
            "ok" => {
                let content = entry
                    .and_then(|e| e.get("content"))
                    .and_then(|c| c.as_str())
                    .unwrap_or("");
                Ok(Cursor::new(content.as_bytes().to_vec()))
            }
            "bytes" => {
                let v: Vec<u8> = entry
                    .and_then(|e| e.get("bytes"))
                    .and_then(|c| c.as_array())
                    .map(|a| a.iter().map(|x| x.as_u64().unwrap_or(0) as u8).collect())
                    .unwrap_or_default();
                Ok(Cursor::new(v))
            }
            "huge" => {
                // a large well-formed prefix followed by garbage
                let n = entry.and_then(|e| e.get("size")).and_then(|c| c.as_u64()).unwrap_or(1 << 22);
                let mut v = Vec::with_capacity(n as usize);
                v.extend_from_slice(b"{\"version\":3,\"sources\":[\"a.js\"],\"names\":[],\"mappings\":\"");
                while (v.len() as u64) < n {
                    v.extend_from_slice(b"AAAA;");
                }
                v.extend_from_slice(b"\"}");
                Ok(Cursor::new(v))
            }
            "eisdir" => Err(Error::new(ErrorKind::Other, "Is a directory (os error 21)")),
            "eacces" => Err(Error::new(ErrorKind::PermissionDenied, "Permission denied (os error 13)")),
            _ => Err(Error::new(ErrorKind::NotFound, "No such file or directory (os error 2)")),
        }
    }

    fn parent(&self, path: &Path) -> Option<PathBuf> {
        match self.parent_mode.as_str() {
            "none" => None,
            "dirname" => {
                // what node's path.dirname gives (never None): "" -> ".", "/" -> "/", "a.js" -> "."
                let s = path.to_string_lossy();
                match s.rfind('/') {
                    None => Some(PathBuf::from(".")),
                    Some(0) => Some(PathBuf::from("/")),
                    Some(i) => Some(PathBuf::from(&s[..i])),
                }
            }
            _ => path.parent().map(PathBuf::from),
        }
    }
}

fn effective_config(c: &vh::Config) -> Value {
    let methods: Vec<Value> = c
        .csi_methods
        .methods
        .iter()
        .map(|m| json!({"src": m.src, "dst": m.dst, "operator": m.operator, "allowedWithoutCallee": m.allowed_without_callee}))
        .collect();
    json!({
        "chainSourceMap": c.chain_source_map,
        "comments": c.print_comments,
        "localVarPrefix": c.local_var_prefix,
        "csiMethods": methods,
        "plusOperator": c.csi_methods.plus_operator.as_ref().map(|m| m.dst.clone()),
        "tplOperator": c.csi_methods.tpl_operator.as_ref().map(|m| m.dst.clone()),
        "telemetryVerbosity": format!("{:?}", c.verbosity).to_uppercase(),
        "literals": c.literals,
        "prefixStmts": c.file_prefix_code.len(),
    })
}

fn parse_to_json(code: &str, file: &str) -> (Option<Value>, Option<String>) {
    let r = catch_unwind(AssertUnwindSafe(|| vh::parse_js(code.to_string(), file)));
    match r {
        Ok(Ok(program)) => match serde_json::to_value(&program) {
            Ok(v) => (Some(v), None),
            Err(e) => (None, Some(format!("serialise: {e}"))),
        },
        Ok(Err(e)) => (None, Some(format!("{e}"))),
        Err(_) => (None, Some("panic in parser".to_string())),
    }
}

fn want(req: &Value, what: &str) -> bool {
    req.get("want")
        .and_then(|w| w.as_array())
        .map(|a| a.iter().any(|x| x.as_str() == Some(what)))
        .unwrap_or(false)
}

fn handle(req: &Value, insts: &mut HashMap<String, vh::Config>) -> Value {
    let id = req.get("id").cloned().unwrap_or(Value::Null);
    let op = req.get("op").and_then(|o| o.as_str()).unwrap_or("rewrite");
    let inst_name = req.get("inst").and_then(|o| o.as_str()).unwrap_or("").to_string();

    if op == "new" || (!insts.contains_key(&inst_name) || inst_name.is_empty()) {
        let raw = req.get("config").cloned().unwrap_or(Value::Null);
        let cfg = catch_unwind(AssertUnwindSafe(|| vh::to_config(raw)));
        match cfg {
            Ok(cfg) => {
                insts.insert(inst_name.clone(), cfg);
            }
            Err(_) => return json!({"id": id, "outcome": "panic", "error": "panic in to_config"}),
        }
        if op == "new" {
            return json!({"id": id, "outcome": "ok", "effective_config": effective_config(&insts[&inst_name])});
        }
    }
    if op == "drop" {
        insts.remove(&inst_name);
        return json!({"id": id, "outcome": "ok"});
    }
    if op == "parse" {
        let code = req.get("code").and_then(|c| c.as_str()).unwrap_or("");
        let file = req.get("file").and_then(|c| c.as_str()).unwrap_or("test.js");
        let (ast, err) = parse_to_json(code, file);
        return json!({"id": id, "outcome": if err.is_none() {"ok"} else {"err"}, "ast": ast, "error": err});
    }

    let config = &insts[&inst_name];
    let code = req.get("code").and_then(|c| c.as_str()).unwrap_or("").to_string();
    let file = req.get("file").and_then(|c| c.as_str()).unwrap_or("test.js").to_string();
    let reader_spec = req.get("reader").cloned().unwrap_or(json!({}));
    let reader = VReader {
        parent_mode: reader_spec.get("parent").and_then(|p| p.as_str()).unwrap_or("default").to_string(),
        files: reader_spec.get("files").and_then(|f| f.as_object()).cloned().unwrap_or_default(),
        log: Default::default(),
    };

    let mut resp = Map::new();
    resp.insert("id".into(), id);
    if want(req, "effective_config") {
        resp.insert("effective_config".into(), effective_config(config));
    }
    if want(req, "in_ast") {
        let (ast, err) = parse_to_json(&code, &file);
        resp.insert("in_ast".into(), ast.unwrap_or(Value::Null));
        resp.insert("in_parse_err".into(), err.map(Value::String).unwrap_or(Value::Null));
    }

    // "real": the reader production code uses (the file system itself) instead of the virtual one
    let real_reader = reader_spec.get("real").and_then(|r| r.as_bool()).unwrap_or(false);
    vh::start_recording();
    let result = catch_unwind(AssertUnwindSafe(|| {
        let rewritten = if real_reader {
            vh::rewrite_js(code.clone(), &file, config, &vh::DefaultFileReader {})
        } else {
            vh::rewrite_js(code.clone(), &file, config, &reader)
        };
        rewritten.map(|out| {
            let content = vh::print_js(&out.code, &out.source_map, &out.original_source_map, config).into_owned();
            let metrics = vh::get_metrics(out.transform_status, &file);
            (
                content,
                out.code,
                out.source_map,
                out.original_source_map.source_map_comment,
                out.original_source_map.source.is_some(),
                metrics,
                out.literals_result,
            )
        })
    }));
    let events = vh::take_events();
    if want(req, "events") {
        resp.insert(
            "events".into(),
            Value::Array(events.iter().map(|(e, a, b, s)| json!({"ev": e, "a": a, "b": b, "s": s})).collect()),
        );
    }
    resp.insert("reader_log".into(), Value::Array(reader.log.borrow().clone()));

    match result {
        Err(p) => {
            let msg = p
                .downcast_ref::<String>()
                .cloned()
                .or_else(|| p.downcast_ref::<&str>().map(|s| s.to_string()))
                .unwrap_or_else(|| "<non-string panic>".into());
            resp.insert("outcome".into(), "panic".into());
            resp.insert("error".into(), msg.into());
        }
        Ok(Err(e)) => {
            resp.insert("outcome".into(), "err".into());
            resp.insert("error".into(), format!("{e}").into());
        }
        Ok(Ok((content, raw_code, raw_map, sm_comment, had_orig, metrics, literals))) => {
            resp.insert("outcome".into(), "ok".into());
            resp.insert("content".into(), content.clone().into());
            if want(req, "raw") {
                resp.insert("raw_code".into(), raw_code.into());
                resp.insert("raw_map".into(), raw_map.into());
            }
            resp.insert("orig_map_comment".into(), sm_comment.map(Value::String).unwrap_or(Value::Null));
            resp.insert("orig_map_used".into(), had_orig.into());
            resp.insert("metrics".into(), serde_json::to_value(&metrics).unwrap_or(Value::Null));
            resp.insert("literals".into(), serde_json::to_value(&literals).unwrap_or(Value::Null));
            if want(req, "out_comments") && !content.is_empty() {
                let r = catch_unwind(AssertUnwindSafe(|| vh::parse_js_comments(content.clone(), &file)));
                let v = match r {
                    Ok(Ok(texts)) => Value::Array(texts.into_iter().map(Value::String).collect()),
                    _ => Value::Null,
                };
                resp.insert("out_comments".into(), v);
            }
            if want(req, "out_ast") && !content.is_empty() {
                let (ast, err) = parse_to_json(&content, &file);
                resp.insert("out_ast".into(), ast.unwrap_or(Value::Null));
                resp.insert("out_parse_err".into(), err.map(Value::String).unwrap_or(Value::Null));
            }
        }
    }
    Value::Object(resp)
}

fn main() {
    // panics of the code under test are data: keep stderr quiet
    std::panic::set_hook(Box::new(|_| {}));
    let stdin = std::io::stdin();
    let stdout = std::io::stdout();
    let mut out = std::io::BufWriter::new(stdout.lock());
    let mut insts: HashMap<String, vh::Config> = HashMap::new();
    for line in stdin.lock().lines() {
        let line = match line {
            Ok(l) => l,
            Err(_) => break,
        };
        if line.trim().is_empty() {
            continue;
        }
        let resp = match serde_json::from_str::<Value>(&line) {
            Ok(req) => {
                // a deep-recursion stack overflow in the code under test would abort the process;
                // run every request on a big stack
                handle(&req, &mut insts)
            }
            Err(e) => json!({"outcome": "bad_request", "error": format!("{e}")}),
        };
        let _ = serde_json::to_writer(&mut out, &resp);
        let _ = out.write_all(b"\n");
        let _ = out.flush();
    }
}
